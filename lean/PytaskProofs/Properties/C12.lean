import PytaskProofs.Lemmas.HashValue
import PytaskProofs.Lemmas.PathNorm
import PytaskProofs.Lemmas.StateUPath
/-!
# C12 — change detection sees content and identity only and separates different content

Property theorems only.  `sha` stands for `hashlib.sha256(·).hexdigest()`, `md5` for
`hashlib.md5(·).hexdigest()`.  What the theorems need of them is stated as hypotheses:

* `hlen : ∀ b, (sha b).length = 64` — a hex digest has 64 characters;
* `InjOn sha S` — no collision *inside a set `S` of byte strings*, together with the statement that the
  byte strings actually hashed while fingerprinting the values at hand lie in `S` (`Covers`, `SigCovers`).
  (Global injectivity would contradict `hlen`, so it is never assumed.)

Vocabulary (`Lemmas/HashValue.lean`): `SameShape` — same kind at every position both values have;
`PyEqH` — what Python's own `==`/`hash` cannot tell apart; `WidthOK` — numeric leaves at the same
position of two sequences have equally long decimal hashes.
-/
namespace Pytask
namespace Hash

variable (sha md5 : Bytes → Str)

/-! ## `hash_value` -/

/-- **hash_stable / content only.** `hash_value` is a closed function of the value (the model has no
session input), and values Python cannot tell apart get the same fingerprint, whatever `sha` is. -/
theorem C12_hash_resp (a b : PyVal) (h : PyEqH a b) : hashValue sha a = hashValue sha b :=
  hashValue_resp sha a b h

/-- **hash_inj_full** — the property at full strength: same-shape values with one fingerprint are
indistinguishable for Python.  FALSE of the current code (F3), see `C12_hash_inj_full_false`. -/
def C12_hash_inj_full : Prop :=
  ∀ (sha : Bytes → Str), (∀ b, (sha b).length = 64) → ∀ (S : Bytes → Prop), InjOn sha S →
    ∀ a b : PyVal, SameShape a b → Covers sha S a → Covers sha S b →
      hashValue sha a = hashValue sha b → PyEqH a b

/-- **F3.** `(1, 23)` and `(12, 3)` have the same shape, Python tells them apart, and they get the same
fingerprint under *every* `sha`: the elements' decimal hashes are joined without a separator. -/
theorem C12_hash_collision_witness (sha : Bytes → Str) :
    hashValue sha (.tuple [.int 1, .int 23]) = hashValue sha (.tuple [.int 12, .int 3]) := by
  have h : hashRenders sha [.int 1, .int 23] = ["1".toList, "23".toList] := by
    simp only [hashRenders, hashValue, HV.render]; decide
  have h' : hashRenders sha [.int 12, .int 3] = ["12".toList, "3".toList] := by
    simp only [hashRenders, hashValue, HV.render]; decide
  simp only [hashValue, h, h']
  rfl

/-- **hash_inj_full is false** (F3): refuted by `(1, 23)` / `(12, 3)` with a length-64 digest that is
collision-free on the single byte string `"123"` both values hash. -/
theorem C12_hash_inj_full_false : ¬ C12_hash_inj_full := by
  intro hfull
  -- any length-64 `sha` will do: both values hash the single byte string "123"
  let sha : Bytes → Str := fun _ => List.replicate 64 '0'
  let S : Bytes → Prop := fun x => x = utf8 "123".toList
  have hS : InjOn sha S := fun x y hx hy _ => hx.trans hy.symm
  have hc1 : Covers sha S (.tuple [.int 1, .int 23]) := by
    simp only [Covers, CoversL, and_true, S]; decide
  have hc2 : Covers sha S (.tuple [.int 12, .int 3]) := by
    simp only [Covers, CoversL, and_true, S]; decide
  have := hfull sha (fun _ => by simp [sha]) S hS _ _ (by simp [SameShape, SameShapeL, PyVal.kind]) hc1 hc2
    (C12_hash_collision_witness sha)
  simp only [PyEqH, PyEqHL, PyVal.kind, PyVal.numHash, true_and, and_true] at this
  exact absurd this.1 (by decide)

/-- **F3, exactly.** Two tuples (or two lists) get the same fingerprint iff the *concatenations* of their
elements' `str(hash_value(·))` coincide — where the cuts between elements fall is lost.  This is the
class the check's F3 classifier accepts; everything else is covered by `C12_hash_inj_partial`. -/
theorem C12_hash_seq_iff (S : Bytes → Prop) (hS : InjOn sha S) (xs ys : List PyVal)
    (cx : S (utf8 (hashRenders sha xs).flatten)) (cy : S (utf8 (hashRenders sha ys).flatten)) :
    (hashValue sha (.tuple xs) = hashValue sha (.tuple ys) ↔
      (hashRenders sha xs).flatten = (hashRenders sha ys).flatten) ∧
    (hashValue sha (.list xs) = hashValue sha (.list ys) ↔
      (hashRenders sha xs).flatten = (hashRenders sha ys).flatten) := by
  simp only [hashValue, joinSep_gen, HV.hex.injEq]
  exact ⟨⟨fun h => utf8_inj (hS _ _ cx cy h), fun h => by rw [h]⟩,
         ⟨fun h => utf8_inj (hS _ _ cx cy h), fun h => by rw [h]⟩⟩

/-- **hash_inj_partial.** Outside the F3 class the property holds: for same-shape values whose
sequences are *fixed width* (numeric leaves at the same position have equally long decimal hashes;
every other kind renders with a fixed width anyway), equal fingerprints imply that Python cannot
tell the values apart — if `sha` has no collision among the byte strings hashed on the way. -/
theorem C12_hash_inj_partial (hlen : ∀ b, (sha b).length = 64) (S : Bytes → Prop) (hS : InjOn sha S)
    (a b : PyVal) (hs : SameShape a b) (hw : WidthOK a b) (ca : Covers sha S a) (cb : Covers sha S b)
    (h : hashValue sha a = hashValue sha b) : PyEqH a b :=
  hashValue_inj_aux sha hlen S hS a b hs hw ca cb h

/-- **hash_inj_scalar.** For scalars (`None`, numbers, `str`, `bytes`, `Path`) the full statement holds. -/
theorem C12_hash_inj_scalar (hlen : ∀ b, (sha b).length = 64) (S : Bytes → Prop) (hS : InjOn sha S)
    (a b : PyVal) (ha : a.kind ≠ .tuple ∧ a.kind ≠ .list) (hs : SameShape a b)
    (ca : Covers sha S a) (cb : Covers sha S b)
    (h : hashValue sha a = hashValue sha b) : PyEqH a b := by
  refine hashValue_inj_aux sha hlen S hS a b hs ?_ ca cb h
  cases a <;> simp_all [PyVal.kind, WidthOK]

/-- non-vacuity of `C12_hash_inj_partial` / `C12_hash_resp`: `(True, "a")` and `(1, "a")` — same shape,
fixed width, covered by a 2-element collision-free set, equal fingerprints. -/
example :
    let a : PyVal := .tuple [.bool true, .str ['a']]
    let b : PyVal := .tuple [.int 1, .str ['a']]
    let l : List Bytes := [[97], utf8 ('1' :: padSha [97])]
    (∀ x, (padSha x).length = 64) ∧ InjOn padSha (· ∈ l) ∧ SameShape a b ∧ WidthOK a b ∧
      Covers padSha (· ∈ l) a ∧ Covers padSha (· ∈ l) b ∧ hashValue padSha a = hashValue padSha b ∧ PyEqH a b := by
  refine ⟨padSha_len, injOn_of_list _ _ (by decide), ?_, ?_, ?_, ?_, ?_, ?_⟩
  · simp [SameShape, SameShapeL, PyVal.kind]
  · simp only [WidthOK, WidthOKL, PyVal.kind, PyVal.numHash]; decide
  · simp only [Covers, CoversL]; decide
  · simp only [Covers, CoversL]; decide
  · simp only [hashValue, hashRenders]; decide
  · simp only [PyEqH, PyEqHL, PyVal.kind, PyVal.numHash]; decide

/-- **state_sep for hashed values.** Different `str` contents get different `PythonNode` states. -/
theorem C12_pystate_sep (S : Bytes → Prop) (hS : InjOn sha S) (s t : Str)
    (hs : S (utf8 s)) (ht : S (utf8 t)) (hne : s ≠ t) :
    statePythonNode sha (.str s) ≠ statePythonNode sha (.str t) := by
  intro h
  simp only [statePythonNode, hashValue, HV.render] at h
  exact hne (sha_utf8_inj sha hS hs ht h)

/-! ## signatures: equality ⇔ identity, per node kind -/

/-- **sig_iff (PathNode).** Two `PathNode`s have the same signature iff they have the same path
(the name is not part of the identity). -/
theorem C12_sig_iff_pathnode (S : Bytes → Prop) (hS : InjOn sha S) (n₁ p₁ n₂ p₂ : Str)
    (c₁ : SigCovers sha S Generated.sigPathNodeFields (envPathNode n₁ p₁))
    (c₂ : SigCovers sha S Generated.sigPathNodeFields (envPathNode n₂ p₂)) :
    sigPathNode sha n₁ p₁ = sigPathNode sha n₂ p₂ ↔ p₁ = p₂ := by
  constructor
  · intro h
    simp only [sigPathNode, sigOf] at h
    have hr := utf8_inj (hS _ _ c₁.2 c₂.2 h)
    rw [rawKey_pathnode, rawKey_pathnode] at hr
    have k₁ := c₁.1 "path" (by simp [Generated.sigPathNodeFields])
    have k₂ := c₂.1 "path" (by simp [Generated.sigPathNodeFields])
    simp only [envPathNode, if_true, Covers] at k₁ k₂
    exact sha_utf8_inj sha hS k₁ k₂ hr
  · rintro rfl
    simp only [sigPathNode, sigOf, rawKey_pathnode]

/-- **sig_iff (PickleNode).** Same path ⇔ same signature. -/
theorem C12_sig_iff_picklenode (S : Bytes → Prop) (hS : InjOn sha S) (n₁ p₁ n₂ p₂ : Str)
    (c₁ : SigCovers sha S Generated.sigPickleNodeFields (envPathNode n₁ p₁))
    (c₂ : SigCovers sha S Generated.sigPickleNodeFields (envPathNode n₂ p₂)) :
    sigPickleNode sha n₁ p₁ = sigPickleNode sha n₂ p₂ ↔ p₁ = p₂ := by
  constructor
  · intro h
    simp only [sigPickleNode, sigOf] at h
    have hr := utf8_inj (hS _ _ c₁.2 c₂.2 h)
    rw [rawKey_picklenode, rawKey_picklenode] at hr
    have k₁ := c₁.1 "path" (by simp [Generated.sigPickleNodeFields])
    have k₂ := c₂.1 "path" (by simp [Generated.sigPickleNodeFields])
    simp only [envPathNode, if_true, Covers] at k₁ k₂
    exact sha_utf8_inj sha hS k₁ k₂ hr
  · rintro rfl
    simp only [sigPickleNode, sigOf, rawKey_picklenode]

/-- A `PathNode` and a `PickleNode` on one path are one DAG node (one file). -/
theorem C12_sig_path_pickle (n₁ n₂ p : Str) : sigPathNode sha n₁ p = sigPickleNode sha n₂ p := by
  simp only [sigPathNode, sigPickleNode, sigOf, rawKey_pathnode, rawKey_picklenode]

/-- **sig_iff (TaskWithoutPath).** Same name ⇔ same signature. -/
theorem C12_sig_iff_taskwithoutpath (S : Bytes → Prop) (hS : InjOn sha S) (n₁ n₂ : Str)
    (c₁ : SigCovers sha S Generated.sigTaskWithoutPathFields (envTaskWithoutPath n₁))
    (c₂ : SigCovers sha S Generated.sigTaskWithoutPathFields (envTaskWithoutPath n₂)) :
    sigTaskWithoutPath sha n₁ = sigTaskWithoutPath sha n₂ ↔ n₁ = n₂ := by
  constructor
  · intro h
    simp only [sigTaskWithoutPath, sigOf] at h
    have hr := utf8_inj (hS _ _ c₁.2 c₂.2 h)
    rw [rawKey_taskw, rawKey_taskw] at hr
    have k₁ := c₁.1 "name" (by simp [Generated.sigTaskWithoutPathFields])
    have k₂ := c₂.1 "name" (by simp [Generated.sigTaskWithoutPathFields])
    simp only [envTaskWithoutPath, if_true, Covers] at k₁ k₂
    exact sha_utf8_inj sha hS k₁ k₂ hr
  · rintro rfl; rfl

/-- **sig_iff (Task).** Same (base name, module path) ⇔ same signature. -/
theorem C12_sig_iff_task (hlen : ∀ b, (sha b).length = 64) (S : Bytes → Prop) (hS : InjOn sha S)
    (b₁ p₁ b₂ p₂ : Str)
    (c₁ : SigCovers sha S Generated.sigTaskFields (envTask b₁ p₁))
    (c₂ : SigCovers sha S Generated.sigTaskFields (envTask b₂ p₂)) :
    sigTask sha b₁ p₁ = sigTask sha b₂ p₂ ↔ b₁ = b₂ ∧ p₁ = p₂ := by
  constructor
  · intro h
    simp only [sigTask, sigOf] at h
    have hr := utf8_inj (hS _ _ c₁.2 c₂.2 h)
    rw [rawKey_task, rawKey_task] at hr
    obtain ⟨e₁, e₂⟩ := List.append_inj hr (by rw [hlen, hlen])
    have k₁ := c₁.1 "base_name" (by simp [Generated.sigTaskFields])
    have k₂ := c₂.1 "base_name" (by simp [Generated.sigTaskFields])
    have l₁ := c₁.1 "path" (by simp [Generated.sigTaskFields])
    have l₂ := c₂.1 "path" (by simp [Generated.sigTaskFields])
    simp [envTask, Covers] at k₁ k₂ l₁ l₂
    exact ⟨sha_utf8_inj sha hS k₁ k₂ e₁, sha_utf8_inj sha hS l₁ l₂ e₂⟩
  · rintro ⟨rfl, rfl⟩; rfl

/-- **sig_iff (DirectoryNode).** Same (root_dir, pattern) ⇔ same signature; `root_dir = None` is told
apart from every path. -/
theorem C12_sig_iff_dirnode (hlen : ∀ b, (sha b).length = 64) (S : Bytes → Prop) (hS : InjOn sha S)
    (n₁ n₂ : Str) (r₁ r₂ : Option Str) (q₁ q₂ : Str)
    (c₁ : SigCovers sha S Generated.sigDirNodeFields (envDirNode n₁ r₁ q₁))
    (c₂ : SigCovers sha S Generated.sigDirNodeFields (envDirNode n₂ r₂ q₂)) :
    sigDirNode sha n₁ r₁ q₁ = sigDirNode sha n₂ r₂ q₂ ↔ r₁ = r₂ ∧ q₁ = q₂ := by
  constructor
  · intro h
    simp only [sigDirNode, sigOf] at h
    have hr := utf8_inj (hS _ _ c₁.2 c₂.2 h)
    rw [rawKey_dirnode, rawKey_dirnode] at hr
    obtain ⟨e₁, e₂⟩ := List.append_inj' hr (by rw [hlen, hlen])
    have k₁ := c₁.1 "root_dir" (by simp [Generated.sigDirNodeFields])
    have k₂ := c₂.1 "root_dir" (by simp [Generated.sigDirNodeFields])
    have l₁ := c₁.1 "pattern" (by simp [Generated.sigDirNodeFields])
    have l₂ := c₂.1 "pattern" (by simp [Generated.sigDirNodeFields])
    simp [envDirNode, Covers] at k₁ k₂ l₁ l₂
    exact ⟨optPath_render_inj sha hlen hS k₁ k₂ e₁, sha_utf8_inj sha hS l₁ l₂ e₂⟩
  · rintro ⟨rfl, rfl⟩
    simp only [sigDirNode, sigOf, rawKey_dirnode]

/-- **sig_iff (PythonNode), up to the fingerprint of the tree path.** Two `PythonNode`s with node info
have the same signature iff they agree on argument name, task name, task path and on
`hash_value(tree path)`. -/
theorem C12_sig_iff_pythonnode_hash (hlen : ∀ b, (sha b).length = 64) (S : Bytes → Prop) (hS : InjOn sha S)
    (i₁ i₂ : NodeInfo)
    (c₁ : SigCovers sha S Generated.sigPythonNodeFields (envNodeInfo i₁))
    (c₂ : SigCovers sha S Generated.sigPythonNodeFields (envNodeInfo i₂)) :
    sigPythonNode sha (some i₁) = sigPythonNode sha (some i₂) ↔
      i₁.argName = i₂.argName ∧ hashValue sha (.tuple i₁.treePath) = hashValue sha (.tuple i₂.treePath) ∧
      i₁.taskName = i₂.taskName ∧ i₁.taskPath = i₂.taskPath := by
  constructor
  · intro h
    simp only [sigPythonNode, sigOf] at h
    have hr := utf8_inj (hS _ _ c₁.2 c₂.2 h)
    rw [rawKey_python, rawKey_python] at hr
    obtain ⟨e₁, hr⟩ := List.append_inj hr (by rw [hlen, hlen])
    obtain ⟨e₂, hr⟩ := List.append_inj hr (by simp [hashValue, HV.render, hlen])
    obtain ⟨e₃, e₄⟩ := List.append_inj hr (by rw [hlen, hlen])
    have a₁ := c₁.1 "arg_name" (by simp [Generated.sigPythonNodeFields])
    have a₂ := c₂.1 "arg_name" (by simp [Generated.sigPythonNodeFields])
    have t₁ := c₁.1 "task_name" (by simp [Generated.sigPythonNodeFields])
    have t₂ := c₂.1 "task_name" (by simp [Generated.sigPythonNodeFields])
    have q₁ := c₁.1 "task_path" (by simp [Generated.sigPythonNodeFields])
    have q₂ := c₂.1 "task_path" (by simp [Generated.sigPythonNodeFields])
    simp [envNodeInfo, Covers] at a₁ a₂ t₁ t₂ q₁ q₂
    refine ⟨sha_utf8_inj sha hS a₁ a₂ e₁, ?_, sha_utf8_inj sha hS t₁ t₂ e₃,
      optPath_render_inj sha hlen hS q₁ q₂ e₄⟩
    simpa [hashValue, HV.render] using e₂
  · rintro ⟨h₁, h₂, h₃, h₄⟩
    simp only [sigPythonNode, sigOf, rawKey_python, h₁, h₂, h₃, h₄]

/-- **sig_iff (PythonNode), partial.** Outside the F3 class — the two tree paths have the same shape and
are fixed width — two `PythonNode`s share a signature iff they sit at the same argument, the same
position (up to what Python cannot tell apart), in the same task. -/
theorem C12_sig_iff_pythonnode_partial (hlen : ∀ b, (sha b).length = 64) (S : Bytes → Prop)
    (hS : InjOn sha S) (i₁ i₂ : NodeInfo)
    (c₁ : SigCovers sha S Generated.sigPythonNodeFields (envNodeInfo i₁))
    (c₂ : SigCovers sha S Generated.sigPythonNodeFields (envNodeInfo i₂))
    (hs : SameShapeL i₁.treePath i₂.treePath) (hw : WidthOKL i₁.treePath i₂.treePath) :
    sigPythonNode sha (some i₁) = sigPythonNode sha (some i₂) ↔
      i₁.argName = i₂.argName ∧ PyEqHL i₁.treePath i₂.treePath ∧
      i₁.taskName = i₂.taskName ∧ i₁.taskPath = i₂.taskPath := by
  rw [C12_sig_iff_pythonnode_hash sha hlen S hS i₁ i₂ c₁ c₂]
  have p₁ := c₁.1 "path" (by simp [Generated.sigPythonNodeFields])
  have p₂ := c₂.1 "path" (by simp [Generated.sigPythonNodeFields])
  simp [envNodeInfo] at p₁ p₂
  constructor
  · rintro ⟨h₁, h₂, h₃, h₄⟩
    exact ⟨h₁, hashValue_inj_aux sha hlen S hS (.tuple i₁.treePath) (.tuple i₂.treePath) hs hw p₁ p₂ h₂, h₃, h₄⟩
  · rintro ⟨h₁, h₂, h₃, h₄⟩
    exact ⟨h₁, hashValue_resp sha (.tuple i₁.treePath) (.tuple i₂.treePath) h₂, h₃, h₄⟩

/-- **sig_iff (PythonNode)** at full strength (no width condition). FALSE of the current code: inherits F3. -/
def C12_sig_pythonnode_full : Prop :=
  ∀ (sha : Bytes → Str), (∀ b, (sha b).length = 64) → ∀ (S : Bytes → Prop), InjOn sha S →
    ∀ i₁ i₂ : NodeInfo, SigCovers sha S Generated.sigPythonNodeFields (envNodeInfo i₁) →
      SigCovers sha S Generated.sigPythonNodeFields (envNodeInfo i₂) →
      SameShapeL i₁.treePath i₂.treePath →
      (sigPythonNode sha (some i₁) = sigPythonNode sha (some i₂) ↔
        i₁.argName = i₂.argName ∧ PyEqHL i₁.treePath i₂.treePath ∧
        i₁.taskName = i₂.taskName ∧ i₁.taskPath = i₂.taskPath)

/-- **sig_iff (PythonNode) at full strength is false** (F3): the nodes at tree positions `(1, 23)` and
`(12, 3)` of one argument of one task share a signature. -/
theorem C12_sig_pythonnode_full_false : ¬ C12_sig_pythonnode_full := by
  intro hfull
  let i₁ : NodeInfo := ⟨"123".toList, [.int 1, .int 23], "123".toList, none⟩
  let i₂ : NodeInfo := ⟨"123".toList, [.int 12, .int 3], "123".toList, none⟩
  let B : Bytes := utf8 (rawKey toySha Generated.sigPythonNodeFields (envNodeInfo i₁))
  let S : Bytes → Prop := fun x => x = [49, 50, 51] ∨ x = B
  have hB : B ≠ [49, 50, 51] := by decide
  have hB2 : utf8 (rawKey toySha Generated.sigPythonNodeFields (envNodeInfo i₂)) = B := by
    simp only [B, rawKey_python, i₁, i₂, C12_hash_collision_witness]
  have hS : InjOn toySha S := by
    intro x y hx hy h
    rcases hx with rfl | rfl <;> rcases hy with rfl | rfl
    · rfl
    · exact absurd h (by simp [toySha, hB])
    · exact absurd h (by simp [toySha, hB])
    · rfl
  have hlen : ∀ b, (toySha b).length = 64 := by intro b; unfold toySha; split <;> simp
  have c₁ : SigCovers toySha S Generated.sigPythonNodeFields (envNodeInfo i₁) := by
    refine ⟨?_, Or.inr rfl⟩
    intro f hf
    simp only [Generated.sigPythonNodeFields, List.mem_cons, List.not_mem_nil, or_false] at hf
    rcases hf with rfl | rfl | rfl | rfl <;> simp [envNodeInfo, Covers, CoversL, optPath, S, i₁] <;> decide
  have c₂ : SigCovers toySha S Generated.sigPythonNodeFields (envNodeInfo i₂) := by
    refine ⟨?_, Or.inr hB2⟩
    intro f hf
    simp only [Generated.sigPythonNodeFields, List.mem_cons, List.not_mem_nil, or_false] at hf
    rcases hf with rfl | rfl | rfl | rfl <;> simp [envNodeInfo, Covers, CoversL, optPath, S, i₂] <;> decide
  have key := (hfull toySha hlen S hS i₁ i₂ c₁ c₂ (by simp [i₁, i₂, SameShapeL, SameShape, PyVal.kind])).1
    (by simp only [sigPythonNode, sigOf, rawKey_python, i₁, i₂, C12_hash_collision_witness])
  have := key.2.1
  simp only [i₁, i₂, PyEqHL, PyEqH, PyVal.kind, PyVal.numHash, true_and, and_true] at this
  exact absurd this.1 (by decide)

set_option maxRecDepth 4000 in
/-- non-vacuity of `C12_sig_iff_task`: two tasks `task_a` / `task_b` of one module `/r/m.py` -/
example :
    let l : List Bytes := [utf8 "task_a".toList, utf8 "task_b".toList, utf8 "/r/m.py".toList,
      utf8 (rawKey padSha Generated.sigTaskFields (envTask "task_a".toList "/r/m.py".toList)),
      utf8 (rawKey padSha Generated.sigTaskFields (envTask "task_b".toList "/r/m.py".toList))]
    InjOn padSha (· ∈ l) ∧
    SigCovers padSha (· ∈ l) Generated.sigTaskFields (envTask "task_a".toList "/r/m.py".toList) ∧
    SigCovers padSha (· ∈ l) Generated.sigTaskFields (envTask "task_b".toList "/r/m.py".toList) ∧
    sigTask padSha "task_a".toList "/r/m.py".toList ≠ sigTask padSha "task_b".toList "/r/m.py".toList := by
  refine ⟨injOn_of_list _ _ (by decide), ⟨?_, by simp⟩, ⟨?_, by simp⟩, by decide⟩
  · intro f hf
    simp only [Generated.sigTaskFields, List.mem_cons, List.not_mem_nil, or_false] at hf
    rcases hf with rfl | rfl <;> simp [envTask, Covers]
  · intro f hf
    simp only [Generated.sigTaskFields, List.mem_cons, List.not_mem_nil, or_false] at hf
    rcases hf with rfl | rfl <;> simp [envTask, Covers]

/-! ## `state()` of files and the `hash_path` memo -/

/-- **state_missing.** A missing file has no state (`_get_state` returns `None`); the memo is untouched. -/
theorem C12_state_missing (memo : Memo) (p : Str) :
    stateOfFile sha md5 memo p none = (memo, none) := rfl

/-- **state_content_full** — the property at full strength: whatever `state()` calls happened before
(any reachable memo), the state of an existing file is the digest of its *current* bytes.
FALSE of the current code (F4), see `C12_state_content_full_false`. -/
def C12_state_content_full : Prop :=
  ∀ (sha md5 : Bytes → Str) (memo : Memo), Reachable sha md5 memo →
    ∀ (p : Str) (mh : Int) (c : Bytes), (stateOfFile sha md5 memo p (some (mh, c))).2 = some (sha c)

/-- **F4 (stale_after_restore).** For *every* `sha`/`md5`: once a file was seen with bytes `c₁` under
(path, mtime), a later `state()` under the same (path, mtime) returns the digest of `c₁`, whatever the
bytes are now. -/
theorem C12_stale_after_restore (p : Str) (mh : Int) (c₁ c₂ : Bytes) :
    (stateOfFile sha md5 (stateOfFile sha md5 {} p (some (mh, c₁))).1 p (some (mh, c₂))).2
      = some (sha c₁) := by
  simp [stateOfFile_some, Memo.get_empty, Memo.get_insert]

/-- **state_content_full is false** (F4): after one `state()` of a file with bytes `[1]`, new bytes `[2]`
under the same (path, mtime) still give the digest of `[1]`. -/
theorem C12_state_content_full_false : ¬ C12_state_content_full := by
  intro hfull
  let sha : Bytes → Str := fun b => b.map (fun x => Char.ofNat x.toNat)
  have h := hfull sha sha _ (Reachable.step Reachable.empty [] (some (0, [1]))) [] 0 [2]
  rw [C12_stale_after_restore] at h
  exact absurd h (by decide)

/-- **state_content_partial.** If the memo is coherent with the file system, the state of an existing
file is the digest of its current bytes … -/
theorem C12_state_content_partial (memo : Memo) (W : World) (hc : MemoCoherent sha md5 memo W)
    (p : Str) (mh : Int) (c : Bytes) (hp : W p = some (mh, c)) :
    (stateOfFile sha md5 memo p (W p)).2 = some (sha c) := by
  rw [hp, stateOfFile_some]
  cases hg : memo.get (memoKey sha md5 p mh) with
  | none => rfl
  | some v => simp only; rw [hc p mh c v hp hg]

/-- **state_indep.** … hence independent of the modification time and of the spelling of the path:
two existing files (or one file under two spellings / two mtimes) with the same bytes have the same state. -/
theorem C12_state_indep (memo memo' : Memo) (W : World) (hc : MemoCoherent sha md5 memo W)
    (hc' : MemoCoherent sha md5 memo' W) (p q : Str) (mh mh' : Int) (c : Bytes)
    (hp : W p = some (mh, c)) (hq : W q = some (mh', c)) :
    (stateOfFile sha md5 memo p (W p)).2 = (stateOfFile sha md5 memo' q (W q)).2 := by
  rw [C12_state_content_partial sha md5 memo W hc p mh c hp,
      C12_state_content_partial sha md5 memo' W hc' q mh' c hq]

/-- **state_sep.** Different bytes, different state (coherent memo, `sha` collision-free on the two contents). -/
theorem C12_state_sep (S : Bytes → Prop) (hS : InjOn sha S) (memo memo' : Memo) (W : World)
    (hc : MemoCoherent sha md5 memo W) (hc' : MemoCoherent sha md5 memo' W)
    (p q : Str) (mh mh' : Int) (c c' : Bytes)
    (hp : W p = some (mh, c)) (hq : W q = some (mh', c')) (s : S c) (s' : S c') (hne : c ≠ c') :
    (stateOfFile sha md5 memo p (W p)).2 ≠ (stateOfFile sha md5 memo' q (W q)).2 := by
  rw [C12_state_content_partial sha md5 memo W hc p mh c hp,
      C12_state_content_partial sha md5 memo' W hc' q mh' c' hq]
  intro h
  exact hne (hS c c' s s' (Option.some.inj h))

/-- **memo_coherent_nil.** A fresh process (empty memo) is coherent with every file system. -/
theorem C12_memo_coherent_nil (W : World) : MemoCoherent sha md5 {} W := by
  intro p mh c v _ h
  simp [Memo.get_empty] at h

/-- **memo_preserved (state step).** A `state()` call keeps the memo coherent, provided `sha`/`md5` do not
collide on the paths and memo keys of the files that exist (so that distinct (path, mtime) pairs have
distinct keys). This is the only engine step that writes the memo. -/
theorem C12_memo_preserved_state (hlen : ∀ b, (sha b).length = 64) (S S₂ : Bytes → Prop)
    (hS : InjOn sha S) (hS₂ : InjOn md5 S₂) (memo : Memo) (W : World)
    (hcov : ∀ q mh c, W q = some (mh, c) →
      S (utf8 q) ∧ S₂ (utf8 (rawKey sha Generated.memoKeyFields (envMemo q mh))))
    (hc : MemoCoherent sha md5 memo W) (p : Str) :
    MemoCoherent sha md5 (stateOfFile sha md5 memo p (W p)).1 W := by
  cases hp : W p with
  | none => exact hc
  | some f =>
    obtain ⟨mh, c⟩ := f
    rw [stateOfFile_some]
    cases hg : memo.get (memoKey sha md5 p mh) with
    | some v => exact hc
    | none =>
      intro q mh' c' v hq hv
      simp only [Memo.get_insert] at hv
      split at hv
      · next hk =>
        obtain ⟨k₁, k₂⟩ := hcov p mh c hp
        obtain ⟨l₁, l₂⟩ := hcov q mh' c' hq
        obtain ⟨rfl, rfl⟩ := memoKey_inj sha md5 hlen S S₂ hS hS₂ k₁ l₁ k₂ l₂ hk
        rw [hp] at hq
        simp only [Option.some.injEq, Prod.mk.injEq, true_and] at hq
        rw [← hq]; exact (Option.some.inj hv).symm
      · exact hc q mh' c' v hq hv

/-- **memo_preserved (edit).** An honest edit of the file system — every file that differs from before
carries a (path, mtime) pair the memo has no entry for, e.g. because the clock moved on — keeps the
memo coherent.  F4 is exactly an edit that is not honest (`os.utime` back to a seen mtime). -/
theorem C12_memo_preserved_edit (memo : Memo) (W W' : World) (hc : MemoCoherent sha md5 memo W)
    (he : HonestEdit sha md5 memo W W') : MemoCoherent sha md5 memo W' := by
  intro p mh c v hp hv
  rcases he p mh c hp with h | h
  · exact hc p mh c v h hv
  · rw [h] at hv; exact absurd hv (by simp)

/-- **memo_preserved (history).** Along any history of `state()` calls and honest edits that starts
with a coherent memo (e.g. a fresh process), every state returned for an existing file is the digest
of the bytes the file has at that moment — independent of mtimes and spellings. -/
theorem C12_state_content_history (hlen : ∀ b, (sha b).length = 64) (S S₂ : Bytes → Prop)
    (hS : InjOn sha S) (hS₂ : InjOn md5 S₂) (events : List Event) :
    ∀ (memo : Memo) (W : World), MemoCoherent sha md5 memo W → CovHist sha S S₂ W events →
      Honest sha md5 memo W events → AllCorrect sha md5 memo W events := by
  induction events with
  | nil => intros; trivial
  | cons e es ih =>
    intro memo W hc hcov hh
    cases e with
    | edit W' =>
      simp only [CovHist, Honest, AllCorrect] at *
      exact ih memo W' (C12_memo_preserved_edit sha md5 memo W W' hc hh.1) hcov.2 hh.2
    | state p =>
      simp only [CovHist, Honest, AllCorrect] at *
      refine ⟨fun mh c hp => C12_state_content_partial sha md5 memo W hc p mh c hp, ?_⟩
      exact ih _ W (C12_memo_preserved_state sha md5 hlen S S₂ hS hS₂ memo W (covHist_head sha S S₂ W es hcov) hc p) hcov hh

set_option maxRecDepth 4000 in
/-- non-vacuity of `C12_memo_preserved_state` / `C12_state_content_partial` / `C12_state_content_history`:
a world with one file `/a`, a non-empty coherent memo (after one `state()`), then an honest edit
(new bytes under a new mtime) and another `state()`. -/
example :
    let W : World := fun p => if p = "/a".toList then some (5, [1, 2]) else none
    let W' : World := fun p => if p = "/a".toList then some (6, [3]) else none
    let S : Bytes → Prop := (· ∈ [utf8 "/a".toList])
    let S₂ : Bytes → Prop := (· ∈ [utf8 (rawKey padSha Generated.memoKeyFields (envMemo "/a".toList 5)),
                                    utf8 (rawKey padSha Generated.memoKeyFields (envMemo "/a".toList 6))])
    let m := (stateOfFile padSha padSha {} "/a".toList (W "/a".toList)).1
    let events : List Event := [.state "/a".toList, .edit W', .state "/a".toList]
    InjOn padSha S ∧ InjOn padSha S₂ ∧ CovHist padSha S S₂ W events ∧ m.entries ≠ [] ∧
      MemoCoherent padSha padSha m W ∧ Honest padSha padSha {} W events := by
  intro W W' S S₂ m events
  have hS : InjOn padSha S := injOn_of_list _ _ (by decide)
  have hS₂ : InjOn padSha S₂ := injOn_of_list _ _ (by decide)
  have hcW : Cov padSha S S₂ W := by
    intro q mh c hq
    simp only [W] at hq
    split at hq
    · next h => simp only [Option.some.injEq, Prod.mk.injEq] at hq; obtain ⟨rfl, rfl⟩ := hq; subst h; simp [S, S₂]
    · simp at hq
  have hcW' : Cov padSha S S₂ W' := by
    intro q mh c hq
    simp only [W'] at hq
    split at hq
    · next h => simp only [Option.some.injEq, Prod.mk.injEq] at hq; obtain ⟨rfl, rfl⟩ := hq; subst h; simp [S, S₂]
    · simp at hq
  refine ⟨hS, hS₂, ⟨hcW, hcW'⟩, by decide, ?_, ?_⟩
  · exact C12_memo_preserved_state padSha padSha padSha_len S S₂ hS hS₂ {} W hcW (C12_memo_coherent_nil _ _ W) _
  · simp only [events, Honest, and_true]
    intro p mh c hp
    simp only [W'] at hp
    split at hp
    · next h =>
      simp only [Option.some.injEq, Prod.mk.injEq] at hp; obtain ⟨rfl, rfl⟩ := hp; subst h
      right; decide
    · simp at hp

/-- **python_node_sig_injective_in_task_path.** Two python-value arguments that agree in everything but the *module* of
their task — same directory, same function name, same parameter, same position — are two different DAG nodes
(no sha collision among the strings hashed). -/
theorem C12_python_node_sig_injective_in_task_path (hlen : ∀ b, (sha b).length = 64) (S : Bytes → Prop)
    (hS : InjOn sha S) (s₁ s₂ : ArgSite)
    (c₁ : SigCovers sha S Generated.sigPythonNodeFields (envNodeInfo (nodeInfoOfArg s₁)))
    (c₂ : SigCovers sha S Generated.sigPythonNodeFields (envNodeInfo (nodeInfoOfArg s₂)))
    (hm : s₁.modulePath ≠ s₂.modulePath) :
    sigPythonNode sha (some (nodeInfoOfArg s₁)) ≠ sigPythonNode sha (some (nodeInfoOfArg s₂)) := by
  intro h
  have := (C12_sig_iff_pythonnode_hash sha hlen S hS _ _ c₁ c₂).1 h
  exact hm this.2.2.2

/-- **python_node_sig_site.** Conversely the node's identity is a function of the site only: same module, task, parameter
and position (up to what Python cannot tell apart in the position) ⇒ same node, whatever the directory spelling was. -/
theorem C12_python_node_sig_site (s₁ s₂ : ArgSite) (hm : s₁.modulePath = s₂.modulePath)
    (ht : s₁.taskName = s₂.taskName) (hp : s₁.param = s₂.param) (hq : PyEqHL s₁.treePath s₂.treePath) :
    sigPythonNode sha (some (nodeInfoOfArg s₁)) = sigPythonNode sha (some (nodeInfoOfArg s₂)) := by
  have h := hashValue_resp sha (.tuple s₁.treePath) (.tuple s₂.treePath) hq
  simp only [sigPythonNode, sigOf, rawKey_python, nodeInfoOfArg, hm, ht, hp, h]

/-- **merged_arg_identity_full** (F41 repaired in 91d0d18; false before, when the node had no node info and its signature
was a constant).  The node that stands for a plain container-valued argument is *the argument of that task*: two such
nodes are one DAG node iff they belong to the same parameter of the same task of the same module. -/
theorem C12_merged_arg_identity_full (hlen : ∀ b, (sha b).length = 64) (S : Bytes → Prop) (hS : InjOn sha S)
    (s₁ s₂ : ArgSite)
    (c₁ : SigCovers sha S Generated.sigPythonNodeFields (envNodeInfo ⟨s₁.param, [], s₁.taskName, s₁.modulePath⟩))
    (c₂ : SigCovers sha S Generated.sigPythonNodeFields (envNodeInfo ⟨s₂.param, [], s₂.taskName, s₂.modulePath⟩)) :
    sigPythonNode sha (nodeInfoOfMerged s₁) = sigPythonNode sha (nodeInfoOfMerged s₂) ↔
      s₁.param = s₂.param ∧ s₁.taskName = s₂.taskName ∧ s₁.modulePath = s₂.modulePath := by
  simp only [nodeInfoOfMerged]
  rw [C12_sig_iff_pythonnode_hash sha hlen S hS _ _ c₁ c₂]
  simp

/-- **sig (PythonNode without node info) is a constant** — a node constructed by hand without `node_info` has no
identity of its own; collection no longer produces such nodes (`mergedNodeInfoGen_eq` in HashTie). -/
theorem C12_sig_pythonnode_noinfo_const :
    sigPythonNode sha none = sha (utf8 (decInt Generated.hashNoneConst)) := by
  simp [sigPythonNode, hashValue, HV.render]

/-! ## hashed `PythonNode`s that are produced by one task and consumed by another -/

/-- **pynode_dependency.** A `PythonNode` whose value is still unset when the consumer is collected is wrapped
(`collect_dependency`); once the producer has saved a value `v`, the state of the *dependency* is exactly the state the
node itself has with `v` — the `hash` setting travels with the wrapper. -/
theorem C12_pynode_dependency (n : PNode) (v : PyVal) :
    stateWrapper sha { (wrapDependency n) with inner := n.save v } = statePythonNodeOpt sha n.hash (some v) := by
  cases h : n.hash <;> simp [stateWrapper, wrapDependency, PNode.save, statePythonNodeOpt, h]

/-- **pynode_dependency_sep.** For a hashed node (`hash=True`), two produced values of the same shape that Python tells
apart (fixed-width sequences, no sha collision among the strings hashed) give the consumer different states: the
change is detected.  With `hash=False` the state is the constant `"0"` by design. -/
theorem C12_pynode_dependency_sep (hlen : ∀ b, (sha b).length = 64) (S : Bytes → Prop) (hS : InjOn sha S)
    (n : PNode) (hn : n.hash = .on) (a b : PyVal) (hs : SameShape a b) (hw : WidthOK a b)
    (ca : Covers sha S a) (cb : Covers sha S b) (hne : ¬ PyEqH a b) :
    stateWrapper sha { (wrapDependency n) with inner := n.save a } ≠
      stateWrapper sha { (wrapDependency n) with inner := n.save b } := by
  rw [C12_pynode_dependency, C12_pynode_dependency, hn]
  simp only [statePythonNodeOpt, ne_eq, Option.some.injEq]
  intro h
  exact hne (hashValue_inj_aux sha hlen S hS a b hs hw ca cb (render_inj sha hs h))

/-! ## nodes whose path is a protocol `UPath` (`UPath("file://…")`, memory, ssh, …) without an ETag -/

/-- **upath_state_is_file_state.** For a `UPath` whose file system reports no ETag, `_get_state` computes exactly what it
computes for a local path: the memoised content hash `stateOfFile` (translator fact `Generated.upathNoEtagKind`, read from
the `UPathStatResult` branch of `nodes._get_state`).  So a `file://` UPath and a plain `Path` to one file have one state. -/
theorem C12_upath_state_is_file_state (memo : Memo) (p : Str) (mh : Int) (c : Bytes) :
    upathStateOf sha md5 memo p (some (none, mh, c)) = stateOfFile sha md5 memo p (some (mh, c)) :=
  upathStateOf_noEtag sha md5 memo p mh c

/-- **upath_state_content.** With a coherent memo that state is the digest of the file's current bytes: a function of
the bytes alone — a touch does not change it, two files with equal bytes share it, different bytes (no sha collision) differ. -/
theorem C12_upath_state_content (memo : Memo) (W : World) (hc : MemoCoherent sha md5 memo W)
    (p : Str) (mh : Int) (c : Bytes) (hp : W p = some (mh, c)) :
    (upathStateOf sha md5 memo p (some (none, mh, c))).2 = some (sha c) := by
  rw [upathStateOf_noEtag]; exact stateOfFile_coherent sha md5 memo W hc p mh c hp

/-! ## CPython's `hash(int)` -/

/-- **pyHashInt_range.** `hash(i)` lies strictly between ∓(2^61 - 1) and is never -1. -/
theorem C12_pyHashInt_range (i : Int) :
    -(pyHashModulus : Int) < pyHashInt i ∧ pyHashInt i < pyHashModulus ∧ pyHashInt i ≠ -1 :=
  pyHashInt_range i

/-- **pyHashInt_small.** Ints of magnitude below 2^61 - 1 other than -1 hash to themselves, so
`hash_value` separates them. -/
theorem C12_pyHashInt_small (i : Int) (h1 : -(pyHashModulus : Int) < i) (h2 : i < pyHashModulus)
    (h3 : i ≠ -1) : pyHashInt i = i :=
  pyHashInt_small h1 h2 h3

/-- **pyHashInt_periodic.** `hash(i + (2^61 - 1)) = hash(i)` for `i ≥ 0`: what `PyEqH` identifies. -/
theorem C12_pyHashInt_periodic (i : Int) (h : 0 ≤ i) : pyHashInt (i + pyHashModulus) = pyHashInt i :=
  pyHashInt_periodic i h

end Hash

namespace PathNorm
open Pytask.Hash (Str)

/-! ## lexical normalisation of paths (`os.path.normpath`, `collect.py:388-477`) -/

/-- **normpath_idem.** Normalising twice is normalising once: a collected path is in normal form. -/
theorem C12_normpath_idem (p : Str) : normpath (normpath p) = normpath p := normpath_idem p

/-- **normpath_spellings (`/./`).** `p/./q` and `p/q` normalise alike (`p` not made of slashes only). -/
theorem C12_normpath_dot (p q : Str) (hp : HasNonSlash p) :
    normpath (p ++ '/' :: '.' :: '/' :: q) = normpath (p ++ '/' :: q) := by
  apply normpath_congr (by simp) (by simp)
  · rw [initialSlashes_append p _ hp, initialSlashes_append p _ hp]
  · have e : ('.' :: '/' :: q) = dot ++ '/' :: q := rfl
    rw [splitSlash_append, e, splitSlash_append, splitSlash_append,
      splitSlash_noslash dot (by decide)]
    simp [List.foldl_append, step_dot]

/-- **normpath_spellings (`//`).** `p//q` and `p/q` normalise alike. -/
theorem C12_normpath_dslash (p q : Str) (hp : HasNonSlash p) :
    normpath (p ++ '/' :: '/' :: q) = normpath (p ++ '/' :: q) := by
  apply normpath_congr (by simp) (by simp)
  · rw [initialSlashes_append p _ hp, initialSlashes_append p _ hp]
  · rw [splitSlash_append, splitSlash_append]
    simp [List.foldl_append, splitSlash, step_empty]

/-- **normpath_spellings (trailing `/`).** `p/` and `p` normalise alike. -/
theorem C12_normpath_trailing (p : Str) (hp : HasNonSlash p) :
    normpath (p ++ ['/']) = normpath p := by
  apply normpath_congr (by simp) (ne_nil_of_hasNonSlash hp)
  · rw [initialSlashes_append p _ hp]
  · rw [splitSlash_append]
    simp [List.foldl_append, splitSlash, step_empty]

/-- **normpath_spellings (`x/..`).** `p/x/../q` and `p/q` normalise alike for every ordinary component `x`. -/
theorem C12_normpath_dotdot (p x q : Str) (hp : HasNonSlash p) (hx : Normal x) :
    normpath (p ++ '/' :: (x ++ '/' :: '.' :: '.' :: '/' :: q)) = normpath (p ++ '/' :: q) := by
  apply normpath_congr (by simp) (by simp)
  · rw [initialSlashes_append p _ hp, initialSlashes_append p _ hp]
  · have e : ('.' :: '.' :: '/' :: q) = dotdot ++ '/' :: q := rfl
    rw [splitSlash_append, splitSlash_append, e, splitSlash_append, splitSlash_append,
      splitSlash_noslash dotdot (by decide), splitSlash_noslash x hx.2.1]
    simp [List.foldl_append, step_push_pop _ _ hx]


/-- **collect, normal form.** What collection stores as the path of a dependency / product — for a plain
`Path` and for `PathNode` / `PickleNode` / `DirectoryNode` instances, relative or absolute — is in normal form. -/
theorem C12_collect_normal (plain : Bool) (base p : Str) :
    normpath (collectPath plain base p) = collectPath plain base p := by
  cases plain <;> cases h : isAbs p <;>
    simp [collectPath, collectNormalises, h, Generated.collectPlainRelNorm, Generated.collectPlainAbsNorm,
      Generated.collectNodeRelNorm, Generated.collectNodeAbsNorm, normpath_idem]

/-- **collect, spellings.** Relative spellings `p/./q`, `p//q`, `p/x/../q` of `p/q` (relative to the
task's directory `base`) are collected as the same path, for plain paths and node instances alike. -/
theorem C12_collect_spellings (plain : Bool) (base p q x : Str) (hb : base.getLast? ≠ some '/')
    (hp : HasNonSlash p) (hrel : isAbs p = false) (hx : Normal x) :
    collectPath plain base (p ++ '/' :: '.' :: '/' :: q) = collectPath plain base (p ++ '/' :: q) ∧
    collectPath plain base (p ++ '/' :: '/' :: q) = collectPath plain base (p ++ '/' :: q) ∧
    collectPath plain base (p ++ '/' :: (x ++ '/' :: '.' :: '.' :: '/' :: q)) = collectPath plain base (p ++ '/' :: q) := by
  have hrel' : ∀ r, isAbs (p ++ r) = false := by
    intro r
    cases p with
    | nil => exact absurd rfl (ne_nil_of_hasNonSlash hp)
    | cons a t => simpa [isAbs] using hrel
  have hbp : HasNonSlash (base ++ '/' :: p) := by
    obtain ⟨c, hc, hne⟩ := hp
    exact ⟨c, by simp [hc], hne⟩
  have e : ∀ r, base ++ '/' :: (p ++ r) = (base ++ '/' :: p) ++ r := by intro r; simp
  cases plain <;>
    simp only [collectPath, collectNormalises, hrel', joinPath, if_neg hb, Bool.false_eq_true, if_false,
      Generated.collectPlainRelNorm, Generated.collectNodeRelNorm, if_true] <;>
    exact ⟨by rw [e, e]; exact C12_normpath_dot _ q hbp, by rw [e, e]; exact C12_normpath_dslash _ q hbp,
           by rw [e, e]; exact C12_normpath_dotdot _ x q hbp hx⟩

/-- **collect, node instances = plain paths** (F17 repaired in c8f94b3; was false before): a `PathNode`,
`PickleNode` or `DirectoryNode` instance is collected under exactly the path a plain `Path` with the same
spelling is collected under — so two declarations of one file are one DAG node however they are written. -/
theorem C12_collect_node_full (base p : Str) : collectPath false base p = collectPath true base p := by
  cases h : isAbs p <;>
    simp [collectPath, collectNormalises, h, Generated.collectPlainRelNorm, Generated.collectPlainAbsNorm,
      Generated.collectNodeRelNorm, Generated.collectNodeAbsNorm]

/-- **collect, same normalised file ⇔ same collected path.** Two declarations (any mix of plain / node
instance, relative / absolute) are collected under one path iff their absolute forms normalise alike. -/
theorem C12_collect_iff (pl₁ pl₂ : Bool) (base p₁ p₂ : Str) :
    collectPath pl₁ base p₁ = collectPath pl₂ base p₂ ↔
      normpath (if isAbs p₁ then p₁ else joinPath base p₁) = normpath (if isAbs p₂ then p₂ else joinPath base p₂) := by
  cases pl₁ <;> cases pl₂ <;> cases h₁ : isAbs p₁ <;> cases h₂ : isAbs p₂ <;>
    simp [collectPath, collectNormalises, h₁, h₂, Generated.collectPlainRelNorm, Generated.collectPlainAbsNorm,
      Generated.collectNodeRelNorm, Generated.collectNodeAbsNorm]

/-- **paths, normal form.** Whatever spelling of the `paths` argument is used, the project path pytask works with
(and builds task module paths — hence task signatures — from) is in normal form. -/
theorem C12_parse_paths_normal (cwd p : Str) : normpath (parsePath cwd p) = parsePath cwd p := by
  simp [parsePath, Generated.parsePathsResolves, normpath_idem]

/-- **paths, spellings.** `p/./q`, `p//q` and `p/x/../q` (a detour through any sibling directory `x`) name the project /
task module under the same path as `p/q`, so the tasks keep their signature across builds that spell `paths` differently
(symbolic links: trusted to `Path.resolve`, exercised by the check). -/
theorem C12_parse_paths_spellings (cwd p q x : Str) (hb : cwd.getLast? ≠ some '/')
    (hp : HasNonSlash p) (hrel : isAbs p = false) (hx : Normal x) :
    parsePath cwd (p ++ '/' :: '.' :: '/' :: q) = parsePath cwd (p ++ '/' :: q) ∧
    parsePath cwd (p ++ '/' :: '/' :: q) = parsePath cwd (p ++ '/' :: q) ∧
    parsePath cwd (p ++ '/' :: (x ++ '/' :: '.' :: '.' :: '/' :: q)) = parsePath cwd (p ++ '/' :: q) := by
  have e : ∀ r, parsePath cwd r = collectPath true cwd r := by
    intro r
    cases h : isAbs r <;>
      simp [parsePath, collectPath, collectNormalises, h, Generated.parsePathsResolves, Generated.collectPlainRelNorm,
        Generated.collectPlainAbsNorm]
  simp only [e]
  exact C12_collect_spellings true cwd p q x hb hp hrel hx

/-- **paths, trailing `x/..`.** `p/x/..` (and `p/x/../`) — the directory named through a sub-directory — is `p`. -/
theorem C12_parse_paths_dotdot_end (cwd p x : Str) (hb : cwd.getLast? ≠ some '/')
    (hp : HasNonSlash p) (hrel : isAbs p = false) (hx : Normal x) :
    parsePath cwd (p ++ '/' :: (x ++ '/' :: '.' :: '.' :: '/' :: [])) = parsePath cwd p := by
  have h := (C12_parse_paths_spellings cwd p [] x hb hp hrel hx).2.2
  rw [h]
  have hrel' : isAbs (p ++ ['/']) = false := by
    cases p with
    | nil => exact absurd rfl (ne_nil_of_hasNonSlash hp)
    | cons a t => simpa [isAbs] using hrel
  have hbp : HasNonSlash (cwd ++ '/' :: p) := by
    obtain ⟨c, hc, hne⟩ := hp
    exact ⟨c, by simp [hc], hne⟩
  have e : cwd ++ '/' :: (p ++ ['/']) = (cwd ++ '/' :: p) ++ ['/'] := by simp
  simp only [parsePath, hrel', hrel, joinPath, if_neg hb, Bool.false_eq_true, if_false, Generated.parsePathsResolves, if_true]
  rw [e]; exact C12_normpath_trailing _ hbp

/-- **task identity under spellings of `paths`.** The signature of a task collected from the module `m` under the
project path is the same for the spellings above. -/
theorem C12_task_sig_paths (sha : Pytask.Hash.Bytes → Str) (base cwd p q x m : Str) (hb : cwd.getLast? ≠ some '/')
    (hp : HasNonSlash p) (hrel : isAbs p = false) (hx : Normal x) :
    Pytask.Hash.sigTask sha base (parsePath cwd (p ++ '/' :: (x ++ '/' :: '.' :: '.' :: '/' :: q)) ++ '/' :: m) =
      Pytask.Hash.sigTask sha base (parsePath cwd (p ++ '/' :: q) ++ '/' :: m) := by
  rw [(C12_parse_paths_spellings cwd p q x hb hp hrel hx).2.2]

/-- non-vacuity of the spelling theorems: `/r/a` has a non-slash character, `x` is an ordinary component,
and the four spellings of `/r/a/b` normalise to it. -/
example : HasNonSlash "/r/a".toList ∧ Normal "x".toList ∧
    normpath "/r/a/./b".toList = "/r/a/b".toList ∧ normpath "/r/a//b".toList = "/r/a/b".toList ∧
    normpath "/r/a/x/../b".toList = "/r/a/b".toList ∧ normpath "/r/a/b/".toList = "/r/a/b".toList ∧
    normpath "//r/../../a".toList = "//a".toList ∧ normpath "../a/../../b".toList = "../../b".toList := by
  refine ⟨⟨'r', by decide, by decide⟩, by simp only [Normal]; decide, ?_⟩
  decide
end PathNorm
end Pytask
