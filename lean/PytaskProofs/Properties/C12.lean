import PytaskProofs.Lemmas.HashValue
import PytaskModel.PathNorm
/-!
# C12 — change detection sees content and identity only and separates different content

Property theorems only.  `sha` stands for `hashlib.sha256(·).hexdigest()`, `md5` for
`hashlib.md5(·).hexdigest()`.  What the theorems need of them is stated as hypotheses:

* `hlen : ∀ b, (sha b).length = 64` — a hex digest has 64 characters;
* `InjOn sha S` — no collision *inside a set `S` of byte strings*, together with the statement that the
  byte strings actually hashed while fingerprinting the values at hand lie in `S` (`Covers`, `SigCovers`).
  (Global injectivity would contradict `hlen`, so it is never assumed.)

Vocabulary (`Lemmas/HashValue.lean`): `SameShape` — same kind at every position both values have;
`PyEqH` — what Python's own `==`/`hash` cannot tell apart; `WidthOK` — numeric leaves at the same
position of two sequences have equally long decimal hashes.
-/
namespace Pytask
namespace Hash

variable (sha md5 : Bytes → Str)

/-! ## `hash_value` -/

/-- **hash_stable / content only.** `hash_value` is a closed function of the value (the model has no
session input), and values Python cannot tell apart get the same fingerprint, whatever `sha` is. -/
theorem C12_hash_resp (a b : PyVal) (h : PyEqH a b) : hashValue sha a = hashValue sha b :=
  hashValue_resp sha a b h

/-- **hash_inj_full** — the property at full strength: same-shape values with one fingerprint are
indistinguishable for Python.  FALSE of the current code (F3), see `C12_hash_inj_full_false`. -/
def C12_hash_inj_full : Prop :=
  ∀ (sha : Bytes → Str), (∀ b, (sha b).length = 64) → ∀ (S : Bytes → Prop), InjOn sha S →
    ∀ a b : PyVal, SameShape a b → Covers sha S a → Covers sha S b →
      hashValue sha a = hashValue sha b → PyEqH a b

/-- **F3.** `(1, 23)` and `(12, 3)` have the same shape, Python tells them apart, and they get the same
fingerprint under *every* `sha`: the elements' decimal hashes are joined without a separator. -/
theorem C12_hash_collision_witness (sha : Bytes → Str) :
    hashValue sha (.tuple [.int 1, .int 23]) = hashValue sha (.tuple [.int 12, .int 3]) := by
  have h : hashRenders sha [.int 1, .int 23] = ["1".toList, "23".toList] := by
    simp only [hashRenders, hashValue, HV.render]; decide
  have h' : hashRenders sha [.int 12, .int 3] = ["12".toList, "3".toList] := by
    simp only [hashRenders, hashValue, HV.render]; decide
  simp only [hashValue, h, h']
  rfl

theorem C12_hash_inj_full_false : ¬ C12_hash_inj_full := by
  intro hfull
  -- any length-64 `sha` will do: both values hash the single byte string "123"
  let sha : Bytes → Str := fun _ => List.replicate 64 '0'
  let S : Bytes → Prop := fun x => x = utf8 "123".toList
  have hS : InjOn sha S := fun x y hx hy _ => hx.trans hy.symm
  have hc1 : Covers sha S (.tuple [.int 1, .int 23]) := by
    simp only [Covers, CoversL, and_true, S]; decide
  have hc2 : Covers sha S (.tuple [.int 12, .int 3]) := by
    simp only [Covers, CoversL, and_true, S]; decide
  have := hfull sha (fun _ => by simp [sha]) S hS _ _ (by simp [SameShape, SameShapeL, PyVal.kind]) hc1 hc2
    (C12_hash_collision_witness sha)
  simp only [PyEqH, PyEqHL, PyVal.kind, PyVal.numHash, true_and, and_true] at this
  exact absurd this.1 (by decide)

/-- **hash_inj_partial.** Outside the F3 class the property holds: for same-shape values whose
sequences are *fixed width* (numeric leaves at the same position have equally long decimal hashes;
every other kind renders with a fixed width anyway), equal fingerprints imply that Python cannot
tell the values apart — if `sha` has no collision among the byte strings hashed on the way. -/
theorem C12_hash_inj_partial (hlen : ∀ b, (sha b).length = 64) (S : Bytes → Prop) (hS : InjOn sha S)
    (a b : PyVal) (hs : SameShape a b) (hw : WidthOK a b) (ca : Covers sha S a) (cb : Covers sha S b)
    (h : hashValue sha a = hashValue sha b) : PyEqH a b :=
  hashValue_inj_aux sha hlen S hS a b hs hw ca cb h

/-- **hash_inj_scalar.** For scalars (`None`, numbers, `str`, `bytes`, `Path`) the full statement holds. -/
theorem C12_hash_inj_scalar (hlen : ∀ b, (sha b).length = 64) (S : Bytes → Prop) (hS : InjOn sha S)
    (a b : PyVal) (ha : a.kind ≠ .tuple ∧ a.kind ≠ .list) (hs : SameShape a b)
    (ca : Covers sha S a) (cb : Covers sha S b)
    (h : hashValue sha a = hashValue sha b) : PyEqH a b := by
  refine hashValue_inj_aux sha hlen S hS a b hs ?_ ca cb h
  cases a <;> simp_all [PyVal.kind, WidthOK]

/-- **state_sep for hashed values.** Different `str` contents get different `PythonNode` states. -/
theorem C12_pystate_sep (S : Bytes → Prop) (hS : InjOn sha S) (s t : Str)
    (hs : S (utf8 s)) (ht : S (utf8 t)) (hne : s ≠ t) :
    statePythonNode sha (.str s) ≠ statePythonNode sha (.str t) := by
  intro h
  simp only [statePythonNode, hashValue, HV.render] at h
  exact hne (sha_utf8_inj sha hS hs ht h)

/-! ## CPython's `hash(int)` -/

/-- **pyHashInt_range.** `hash(i)` lies strictly between ∓(2^61 - 1) and is never -1. -/
theorem C12_pyHashInt_range (i : Int) :
    -(pyHashModulus : Int) < pyHashInt i ∧ pyHashInt i < pyHashModulus ∧ pyHashInt i ≠ -1 :=
  pyHashInt_range i

/-- **pyHashInt_small.** Ints of magnitude below 2^61 - 1 other than -1 hash to themselves, so
`hash_value` separates them. -/
theorem C12_pyHashInt_small (i : Int) (h1 : -(pyHashModulus : Int) < i) (h2 : i < pyHashModulus)
    (h3 : i ≠ -1) : pyHashInt i = i :=
  pyHashInt_small h1 h2 h3

/-- **pyHashInt_periodic.** `hash(i + (2^61 - 1)) = hash(i)` for `i ≥ 0`: what `PyEqH` identifies. -/
theorem C12_pyHashInt_periodic (i : Int) (h : 0 ≤ i) : pyHashInt (i + pyHashModulus) = pyHashInt i :=
  pyHashInt_periodic i h

end Hash
end Pytask
