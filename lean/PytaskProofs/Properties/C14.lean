import PytaskProofs.Lemmas.Capture
/-!
# C14 — captured output is attributed to the task that wrote it, completely and only

Property theorems only. A build is `runBuild cfg mods ios st0` (M10, `PytaskModel/Capture.lean`): the
`pytask_post_parse` implementations in pluggy order, collection, the `pytask_collect_log` wrapper, one
`task_capture` window per entered hook of every executed task (`phaseList ios`, in execution order, whatever
that order is), then the `pytask_unconfigure` implementations (since commit 124aca8 including `capture`, which stops the capture
manager). All statements quantify over every initial
process state `st0` in which descriptors 0-2 are open and `sys.stdout` / `sys.stderr` are the interpreter's own
streams (`StdW`), every list of tasks, hooks and writes, and every payload.

`Phase.secs cap ph` is what the property prescribes for one window: a `stdout` section holding, in order and
unmodified, the bytes the task wrote on the captured stdout channels during that window, a `stderr` section
likewise, each present only if non-empty. What the model cannot exhibit (the OS is modelled): see `ASSUMPTIONS`
in `harness/props/c14.py`.
-/
namespace Pytask.Capture

/-- **C14_fd.** With `capture=fd` the report sections of a build are exactly, window by window and in execution
order, everything the task wrote during that window on *any* channel — `print`, `sys.stderr.write`,
`os.write(1|2)`, child processes — split by stream; and no file that existed before the build (in particular
the real stdout / stderr) receives a single byte. -/
theorem C14_fd (cfg : Cfg) (st0 : St) (mods : List ModSpec) (ios : List TaskIO)
    (hm : cfg.method = .fd) (hcf : cfg.configFails = false) (hw : StdW st0.w) :
    (runBuild cfg mods ios st0).secs = (phaseList ios).flatMap (Phase.secs (fun _ => true)) ∧
    (∀ f, f < st0.w.os.files.length → (runBuild cfg mods ios st0).w.os.file f = st0.w.os.file f) ∧
    (runBuild cfg mods ios st0).w.fault = false := by
  obtain ⟨_, h1, h2, _, _, h3, _⟩ := build_fd cfg st0 mods ios hm hcf hw
  exact ⟨h1, h2, h3⟩

/-- **C14_sys.** With `capture=sys` the sections hold exactly the Python-level writes (`print`,
`sys.std*.write`) of each window, and every file `f` ends up with its old content followed by exactly the
descriptor-level writes (`os.write`, children) that were directed at it through descriptor 1 resp. 2, in
order: descriptor-level output reaches the real streams, Python-level output does not. -/
theorem C14_sys (cfg : Cfg) (st0 : St) (mods : List ModSpec) (ios : List TaskIO)
    (hm : cfg.method = .sys) (hcf : cfg.configFails = false) (hw : StdW st0.w) :
    ∃ t1 t2, st0.w.os.fd 1 = some t1 ∧ st0.w.os.fd 2 = some t2 ∧
    (runBuild cfg mods ios st0).secs = (phaseList ios).flatMap (Phase.secs (fun c => c.isPy)) ∧
    (∀ f, (runBuild cfg mods ios st0).w.os.file f = st0.w.os.file f ++
      outText (fun c => !c.isPy && ((!c.isErr && t1 == f) || (c.isErr && t2 == f))) (allWrites (phaseList ios))) ∧
    (runBuild cfg mods ios st0).w.fault = false := by
  obtain ⟨t1, t2, h1, h2, _, h3, h4, _, _, h5, _⟩ := build_sys cfg st0 mods ios false (by simp [hm]) hcf hw
  refine ⟨t1, t2, h1, h2, h3, ?_, h5⟩
  intro f; rw [h4 f]; simp

/-- **C14_tee.** With `capture=tee-sys` the sections are as for `sys`, and the real streams additionally receive
the Python-level writes: every file gets everything directed at it, in write order. -/
theorem C14_tee (cfg : Cfg) (st0 : St) (mods : List ModSpec) (ios : List TaskIO)
    (hm : cfg.method = .teeSys) (hcf : cfg.configFails = false) (hw : StdW st0.w) :
    ∃ t1 t2, st0.w.os.fd 1 = some t1 ∧ st0.w.os.fd 2 = some t2 ∧
    (runBuild cfg mods ios st0).secs = (phaseList ios).flatMap (Phase.secs (fun c => c.isPy)) ∧
    (∀ f, (runBuild cfg mods ios st0).w.os.file f = st0.w.os.file f ++
      outText (fun c => (!c.isErr && t1 == f) || (c.isErr && t2 == f)) (allWrites (phaseList ios))) ∧
    (runBuild cfg mods ios st0).w.fault = false := by
  obtain ⟨t1, t2, h1, h2, _, h3, h4, _, _, h5, _⟩ := build_sys cfg st0 mods ios true (by simp [hm]) hcf hw
  refine ⟨t1, t2, h1, h2, h3, ?_, h5⟩
  intro f; rw [h4 f]; simp

/-- **C14_no.** With `capture=no` there are no sections and the real streams receive everything, in write
order. -/
theorem C14_no (cfg : Cfg) (st0 : St) (mods : List ModSpec) (ios : List TaskIO)
    (hm : cfg.method = .no) (hcf : cfg.configFails = false) (hw : StdW st0.w) :
    ∃ t1 t2, st0.w.os.fd 1 = some t1 ∧ st0.w.os.fd 2 = some t2 ∧
    (runBuild cfg mods ios st0).secs = [] ∧
    (∀ f, (runBuild cfg mods ios st0).w.os.file f = st0.w.os.file f ++
      outText (fun c => (!c.isErr && t1 == f) || (c.isErr && t2 == f)) (allWrites (phaseList ios))) ∧
    (runBuild cfg mods ios st0).w.fault = false := by
  obtain ⟨t1, t2, h1, h2, _, h3, h4, _, _, h5, _⟩ := build_no cfg st0 mods ios hm hcf hw
  exact ⟨t1, t2, h1, h2, h3, h4, h5⟩

/-- **C14_iso** (all methods). Every section of the finished build belongs to one window of the task it is
attributed to, carries that hook's label, and its text consists of nothing but the captured writes that this task
made during that window on that stream, in order. Hence no byte written by task `i` occurs in a section of
task `j ≠ i`. -/
theorem C14_iso (cfg : Cfg) (st0 : St) (mods : List ModSpec) (ios : List TaskIO)
    (hcf : cfg.configFails = false) (hw : StdW st0.w) (s : Sec) (hs : s ∈ (runBuild cfg mods ios st0).secs) :
    ∃ ph ∈ phaseList ios, ph.1 = s.task ∧ s.when = whenOf ph.2.1 ∧
      s.text = outText (fun c => captured cfg.method c && (c.isErr == s.err)) ph.2.2.1 := by
  rw [build_secs cfg st0 mods ios hcf hw] at hs
  obtain ⟨ph, hph, hmem⟩ := List.mem_flatMap.1 hs
  obtain ⟨a, b, _, d⟩ := mem_secsOf hmem
  refine ⟨ph, hph, a.symm, b, ?_⟩
  rw [d]
  cases s.err
  · simp only [Bool.false_eq_true, if_false]; apply outText_congr; intro c; cases c.isErr <;> simp
  · simp only [if_true]; apply outText_congr; intro c; cases c.isErr <;> simp

/-- **C14_complete** (all methods). Conversely every window in which the task wrote a non-empty captured text on
a stream yields a section with exactly that text. -/
theorem C14_complete (cfg : Cfg) (st0 : St) (mods : List ModSpec) (ios : List TaskIO)
    (hcf : cfg.configFails = false) (hw : StdW st0.w) (ph : Phase) (hph : ph ∈ phaseList ios) (e : Bool)
    (hne : outText (fun c => captured cfg.method c && (c.isErr == e)) ph.2.2.1 ≠ []) :
    ⟨ph.1, whenOf ph.2.1, e, outText (fun c => captured cfg.method c && (c.isErr == e)) ph.2.2.1⟩
      ∈ (runBuild cfg mods ios st0).secs := by
  rw [build_secs cfg st0 mods ios hcf hw]
  refine List.mem_flatMap.2 ⟨ph, hph, ?_⟩
  unfold Phase.secs secsOf
  cases e
  · have : outText (fun c => captured cfg.method c && !c.isErr) ph.2.2.1
        = outText (fun c => captured cfg.method c && (c.isErr == false)) ph.2.2.1 := by
      apply outText_congr; intro c; cases c.isErr <;> simp
    rw [← this] at hne ⊢
    apply List.mem_append_left
    simp [hne]
  · have : outText (fun c => captured cfg.method c && c.isErr) ph.2.2.1
        = outText (fun c => captured cfg.method c && (c.isErr == true)) ph.2.2.1 := by
      apply outText_congr; intro c; cases c.isErr <;> simp
    rw [← this] at hne ⊢
    apply List.mem_append_right
    simp [hne]

/-- **C14_empty.** A (hook, stream) on which nothing was captured produces no section: no section of a finished
build has an empty text. -/
theorem C14_empty (cfg : Cfg) (st0 : St) (mods : List ModSpec) (ios : List TaskIO)
    (hcf : cfg.configFails = false) (hw : StdW st0.w) (s : Sec) (hs : s ∈ (runBuild cfg mods ios st0).secs) :
    s.text ≠ [] := by
  rw [build_secs cfg st0 mods ios hcf hw] at hs
  obtain ⟨ph, _, hmem⟩ := List.mem_flatMap.1 hs
  exact (mem_secsOf hmem).2.2.1

/-! ## Non-vacuity: the hypotheses hold on a concrete process, and the conclusions are not trivial there -/

/-- a process with three distinct files on descriptors 0, 1, 2 -/
private def w0 : W := { os := { files := [[], [], []], fdt := [some 0, some 1, some 2] } }

/-- two tasks; the first prints, writes to fd 1, lets a child write to fd 2 and writes to `sys.stderr`; the second
fails after printing (no teardown window) -/
private def ios0 : List TaskIO :=
  [⟨7, [("pytask_execute_task_setup", []),
        ("pytask_execute_task", [⟨.pyOut, [104, 105]⟩, ⟨.fd1, [33]⟩, ⟨.child2, [10]⟩, ⟨.pyErr, [101]⟩, ⟨.pyOut, []⟩]),
        ("pytask_execute_task_teardown", [])], []⟩,
   ⟨8, [("pytask_execute_task_setup", []), ("pytask_execute_task", [⟨.pyOut, [120]⟩])], []⟩]

example : StdW w0 := ⟨⟨⟨0, by decide⟩, ⟨1, by decide⟩, ⟨2, by decide⟩⟩, rfl, rfl, rfl⟩

example : (runBuild { method := .fd } [] ios0 { w := w0 }).secs
    = [⟨7, "call", false, [104, 105, 33]⟩, ⟨7, "call", true, [10, 101]⟩, ⟨8, "call", false, [120]⟩] := by decide +kernel

example : (runBuild { method := .sys } [] ios0 { w := w0 }).secs
    = [⟨7, "call", false, [104, 105]⟩, ⟨7, "call", true, [101]⟩, ⟨8, "call", false, [120]⟩]
    ∧ (runBuild { method := .sys } [] ios0 { w := w0 }).w.os.file 1 = [33]
    ∧ (runBuild { method := .sys } [] ios0 { w := w0 }).w.os.file 2 = [10] := by decide +kernel

example : (runBuild { method := .teeSys } [] ios0 { w := w0 }).w.os.file 1 = [104, 105, 33, 120]
    ∧ (runBuild { method := .no } [] ios0 { w := w0 }).w.os.file 2 = [10, 101]
    ∧ (runBuild { method := .no } [] ios0 { w := w0 }).secs = [] := by decide +kernel

end Pytask.Capture
