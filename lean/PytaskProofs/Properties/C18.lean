import PytaskProofs.Lemmas.Provisional
import PytaskProofs.Lemmas.ProvisionalMarks
/-!
# C18 — directory patterns resolve when the consumer starts; generated tasks run in the same build

Model M7 (`PytaskModel/Provisional.lean`): `provisional.py`, `provisional_utils.py`, `DirectoryNode`, the protocol of
`execute.py`, `from_dag_and_sorter`. `Y` (what generator bodies define) and `F` (what bodies write) are arbitrary.
A build is `initSess ts w = some s₀` followed by `loop Y F s₀ picks = .ok s'` for the observed pick order; every
theorem holds for every pick order the loop accepts (= every legal schedule of the sequential executor).
-/
namespace Pytask
open Sorter Prov
open Engine (lookup taskAnc taskDesc tv nv isTaskV hasChanged stateOf neighbours)

/-- `DirectoryNode.collect`: the pattern (an interval of file ids) matches exactly the files of the interval that exist. -/
theorem C18_glob (π : Pat) (fs : FS) (n : Nat) :
    n ∈ π.glob fs ↔ π.lo ≤ n ∧ n < π.lo + π.len ∧ (lookup fs n).isSome = true := mem_glob

/-- **C18_resolve.** For every session state `s` and every task `t` whose directory-pattern dependencies are still
unresolved: every time the protocol of `t` calls the task function, each pattern argument is exactly the list of files
matching the pattern in the world in which the protocol of `t` started (`s.w.fs`), and that is also what the body's own
glob sees (nothing between the resolution in `setup` and the call changes the file system). -/
theorem C18_resolve (Y : YieldFn) (F : BodyFn) (s : Sess) (t : Nat) (tk : PTask) (hf : findTask s.tasks t = some tk)
    (hun : ∀ sl ∈ tk.pdeps, sl.res = none) (e : Recv) (he : e ∈ (protocol Y F s t).recv) :
    e ∈ s.recv ∨ (e.task = t ∧ e.got = tk.pdeps.map (fun sl => sl.pat.glob s.w.fs) ∧ e.seen = e.got) := by
  have hgot : received (resolvedDeps s.w.fs tk) = tk.pdeps.map (fun sl => sl.pat.glob s.w.fs) := by
    rw [received_resolvedDeps]
    apply List.map_congr_left
    intro sl hsl; rw [hun sl hsl]; rfl
  rcases protocol_obs Y F s t tk hf with h | h
  · left; rw [h.2.1] at he; exact he
  · rw [h.2.1] at he
    rcases List.mem_append.1 he with he | he
    · exact Or.inl he
    · right
      simp only [List.mem_singleton] at he
      subst he
      exact ⟨rfl, hgot, by simp only [seenBy_resolvedDeps, hgot]⟩

/-- **C18_order.** In a build that started with the tasks `ts`, when the loop hands out task `t` in state `sm` (reached
after the picks `pre`), every task-ancestor of `t` in the graph *current at that moment* (re-created whenever a pattern
was resolved or a generator defined tasks) has already completed its protocol. -/
theorem C18_order (Y : YieldFn) (F : BodyFn) (ts : List PTask) (w : World) (s0 sm s' : Sess) (pre : List Nat) (t : Nat)
    (post : List Nat) (h0 : initSess ts w = some s0) (h1 : loop Y F s0 pre = .ok sm) (h2 : loop Y F sm (t :: post) = .ok s')
    (a : Nat) (ha : a ∈ taskAnc sm.g t) : a ∈ pre := by
  have hi : LInv ts sm ([] ++ pre) := loop_inv pre s0 sm [] (initSess_inv h0) h1
  obtain ⟨hs, _, hl, hf, _⟩ := loop_cons h2
  simpa using pick_order hi hs hl hf a ha

/-- **C18_once / C18_gen_once.** In one build no task is handed out twice and no task function — generators and
generated tasks included — is called more than once. For generators this rests on the extracted facts that
`pytask_execute_task` is a `firstresult` hook, that `provisional` comes before `execute` in its call order and that the
generator implementation returns a result (`Generated.executeOrder`, `executeOrderFirstResult`,
`provisionalGeneratorResult`, consumed by `execChain_eval`): with the pre-8626c87 code the proof does not go through. -/
theorem C18_gen_once (Y : YieldFn) (F : BodyFn) (ts : List PTask) (w : World) (s0 s' : Sess) (picks : List Nat)
    (h0 : initSess ts w = some s0) (h1 : loop Y F s0 picks = .ok s') (t : Nat) :
    picks.count t ≤ 1 ∧ s'.log.count t ≤ 1 := by
  have hnd : picks.Nodup := by simpa using loop_nodup picks s0 s' [] (initSess_inv h0) List.nodup_nil h1
  obtain ⟨l, hl1, hl2⟩ := loop_log picks s0 s' h1
  have hs0 : s0.log = [] := by
    unfold initSess at h0
    split at h0
    · cases h0
    · split at h0
      · cases h0
      · cases h0; rfl
  rw [hl2, hs0, List.nil_append]
  exact ⟨List.nodup_iff_count.1 hnd t, List.nodup_iff_count.1 (hnd.sublist hl1) t⟩

/-- **C18_rerun_partial.** In a build that reached state `sm` and now hands out the (non-generator) task `t`, which has
a still unresolved directory-pattern dependency `π`: if some file `n` matching `π` at this moment has no recorded state
for `t` in the database or a recorded state different from its current content (`hasChanged`: the set *grew by a file
never recorded*, or *a matched file's content changed*), and the DAG could be re-created after the resolution, then `t`
is not skipped: its function is called, or it fails (a dependency or its module is missing). -/
theorem C18_rerun_partial (Y : YieldFn) (F : BodyFn) (ts : List PTask) (w : World) (s0 sm s' : Prov.Sess) (pre : List Nat)
    (t : Nat) (post : List Nat) (h0 : initSess ts w = some s0) (h1 : loop Y F s0 pre = .ok sm)
    (h2 : loop Y F sm (t :: post) = .ok s')
    (tk : PTask) (hf : findTask sm.tasks t = some tk) (hng : tk.gen = false) (hfm : t ∉ sm.failMarks)
    (hrn : t ∉ (setupProvisional { sm with so := sm.so.take [tv t] } t).renewed)
    (π : Pat) (hsl : (⟨π, none⟩ : Slot) ∈ tk.pdeps) (n : Nat) (hn : n ∈ π.glob sm.w.fs)
    (hch : hasChanged sm.w t (nv n) (lookup sm.w.fs n) = true)
    (hre : (setupProvisional { sm with so := sm.so.take [tv t] } t).stop = false) :
    (stepOf Y F sm t).log = sm.log ++ [t] ∨ (t, Outcome.fail) ∈ (stepOf Y F sm t).reports := by
  have hi : LInv ts sm ([] ++ pre) := loop_inv pre s0 sm [] (initSess_inv h0) h1
  obtain ⟨hs, _, hl, _, _⟩ := loop_cons h2
  have hg := hi.good hs
  generalize hsa : ({ sm with so := sm.so.take [tv t] } : Prov.Sess) = sa at hre hrn
  have hga : sa.stop = false → Good sa (([] ++ pre).map tv ++ [tv t]) := fun _ => by
    subst hsa
    exact ⟨hg.dag, by obtain ⟨f, hf, hr⟩ := hg.reach; exact ⟨f, hf, Reach.ready 1 [tv t] hr hl⟩, hg.nodes⟩
  have hfa : findTask sa.tasks t = some tk := by subst hsa; exact hf
  have hfma : t ∉ sa.failMarks := by subst hsa; exact hfm
  have hwa : sa.w = sm.w := by subst hsa; rfl
  have hloga : sa.log = sm.log := by subst hsa; rfl
  have hstep : stepOf Y F sm t = { protocol Y F sa t with so := (protocol Y F sa t).so.finish [tv t] } := by subst hsa; rfl
  rw [hstep]
  show (protocol Y F sa t).log = sm.log ++ [t] ∨ (t, Outcome.fail) ∈ (protocol Y F sa t).reports
  rw [← hloga]
  have hsp := setupProvisional_spec sa t tk hfa
  have hg1 : Good (setupProvisional sa t) _ := (setupProvisional_moves sa t).good.2.2 _ hga hre
  -- the matched file is a dependency of the resolved task record
  have hun : unresolved tk.pdeps = true := by
    unfold unresolved; exact List.any_eq_true.2 ⟨_, hsl, rfl⟩
  have hdep : n ∈ (resolvedDeps sa.w.fs tk).allDeps := by
    unfold resolvedDeps PTask.allDeps
    simp only [hun, if_true]
    refine List.mem_append.2 (Or.inr (List.mem_flatMap.2 ⟨Slot.resolve sa.w.fs ⟨π, none⟩, List.mem_map.2 ⟨_, hsl, rfl⟩, ?_⟩))
    rw [hwa]; exact hn
  obtain ⟨m, hdag⟩ := hg1.dag
  have hedge := (createDag_spec hdag _ (findTask_mem hsp.2)).2.1 n hdep
  rw [findTask_id hsp.2] at hedge
  have hpred : nv n ∈ (setupProvisional sa t).g.preds (tv t) := mem_preds.2 hedge
  have hch' : hasChanged (setupProvisional sa t).w t (nv n)
      (stateOf (toProject (setupProvisional sa t).tasks) (setupProvisional sa t).w (nv n)) = true := by
    rw [stateOf_nv, hsp.1.1, hwa]; exact hch
  have hscan := scanP_changed (toProject (setupProvisional sa t).tasks) (setupProvisional sa t).g (setupProvisional sa t).w
    (provNodes (setupProvisional sa t).tasks) t (nv n) hpred hch' (neighbours (setupProvisional sa t).g t) false
    (by unfold neighbours; simp [hpred])
  have hrp := runPhases_not_unchanged Y F sa t tk hfa hng hfma hrn hscan
  unfold protocol
  have hfr := reportChain_frame (runPhases Y F sa t).1 t (runPhases Y F sa t).2
  rcases hrp with h | h
  · left; rw [hfr.2.2.2.2.1]; exact h
  · right
    rw [reportChain_eval, h]
    simp [addReport]

/-- **C18_rerun_full** — the property at full strength: a consumer of a directory pattern that succeeded in an earlier
build (receiving the lists `e1.got`) and is reached by a later build (on any file system, with the database the
earlier build left) is executed again — its function is called, or it fails for a missing node — whenever the lists of
files matching its patterns at that moment differ from what it received then, or a matching file's content differs from
what the earlier build left. **False of the current code** (finding F11): only per-file states are recorded, nothing
records the composition of the set. -/
def C18_rerun_full : Prop :=
  ∀ (Y : YieldFn) (F : BodyFn) (ts : List PTask) (w : World) (picks1 : List Nat) (r1 : Prov.Result) (e1 : Recv)
    (fs2 : FS) (s0 sm s' : Prov.Sess) (pre : List Nat) (t : Nat) (post : List Nat) (tk : PTask),
    Prov.build Y F ts w picks1 = .ok r1 → (t, Outcome.success) ∈ r1.reports → e1 ∈ r1.recv → e1.task = t →
    initSess ts ⟨fs2, r1.w.db⟩ = some s0 → loop Y F s0 pre = .ok sm → loop Y F sm (t :: post) = .ok s' →
    findTask sm.tasks t = some tk → tk.gen = false → t ∉ sm.failMarks → (∀ sl ∈ tk.pdeps, sl.res = none) →
    (setupProvisional { sm with so := sm.so.take [tv t] } t).stop = false →
    (tk.pdeps.map (fun sl => sl.pat.glob sm.w.fs) ≠ e1.got ∨
      ∃ π n, (⟨π, none⟩ : Slot) ∈ tk.pdeps ∧ n ∈ π.glob sm.w.fs ∧ lookup sm.w.fs n ≠ lookup r1.w.fs n) →
    (stepOf Y F sm t).log = sm.log ++ [t] ∨ (t, Outcome.fail) ∈ (stepOf Y F sm t).reports

/-! The F11 witness: one task over the pattern `[1000, 1005)` with product 200; build with files 1000, 1001; delete 1001; build. -/
def f11Task : PTask := { id := 1, src := 9000, pdeps := [⟨⟨500000, 1000, 5⟩, none⟩], prods := [200] }
def f11Y : YieldFn := fun _ _ => []
def f11F : BodyFn := fun _ _ _ _ => 7
def f11W : World := ⟨[(9000, 1), (1000, 5), (1001, 6)], []⟩
def f11R1 : Prov.Result := match Prov.build f11Y f11F [f11Task] f11W [1] with | .ok r => r | .error _ => default
def f11W2 : World := ⟨f11R1.w.fs.filter (fun e => e.1 != 1001), f11R1.w.db⟩

set_option maxRecDepth 8000 in
/-- **C18_rerun_full_false** (finding F11). First build: the consumer receives `[1000, 1001]` and succeeds. File 1001 is
deleted. Second build: the consumer is `SKIP_UNCHANGED` although the matching set shrank. -/
theorem C18_rerun_full_false : ¬ C18_rerun_full := by
  intro h
  have t1 : Prov.build f11Y f11F [f11Task] f11W [1] = .ok f11R1 := by rfl
  have t2 : (initSess [f11Task] f11W2).all (fun s =>
      (match loop f11Y f11F s [1] with | .ok _ => true | .error _ => false) &&
      decide (findTask s.tasks 1 = some f11Task) && decide (1 ∉ s.failMarks) &&
      decide ((setupProvisional { s with so := s.so.take [tv 1] } 1).stop = false) &&
      decide (f11Task.pdeps.map (fun sl => sl.pat.glob s.w.fs) ≠ [[1000, 1001]]) &&
      decide (¬ ((stepOf f11Y f11F s 1).log = s.log ++ [1] ∨ (1, Outcome.fail) ∈ (stepOf f11Y f11F s 1).reports))) = true ∧
      (initSess [f11Task] f11W2).isSome = true := by
    decide +kernel
  cases hs : initSess [f11Task] f11W2 with
  | none => rw [hs] at t2; exact absurd t2.2 (by simp)
  | some s0 =>
    rw [hs] at t2
    simp only [Option.all_some, Bool.and_eq_true, decide_eq_true_eq] at t2
    obtain ⟨⟨⟨⟨⟨⟨a1, a2⟩, a3⟩, a4⟩, a5⟩, a6⟩, _⟩ := t2
    exact a6 (h f11Y f11F [f11Task] f11W [1] f11R1 ⟨1, [[1000, 1001]], [[1000, 1001]]⟩ f11W2.fs s0 s0
      (stepOf f11Y f11F s0 1) [] 1 [] f11Task t1 (by decide +kernel) (by decide +kernel) rfl hs rfl (loop_one a1) a2 rfl a3
      (by decide) a4 (Or.inl a5))

/-- **C18_producer_first.** If, among the collected tasks `ts`, `P` declares the directory pattern `π` as a product and
`C` declares the same pattern (same `DirectoryNode` signature, `π.node`) as a dependency, then in every build the
protocol of `P` (body, resolution of its products, teardown) has completed before `C` is handed out — and `C`'s
dependency is only resolved after that, at `C`'s own setup (C18_resolve). -/
theorem C18_producer_first (Y : YieldFn) (F : BodyFn) (ts : List PTask) (w : World) (s0 sm s' : Prov.Sess) (pre : List Nat)
    (c : Nat) (post : List Nat) (h0 : initSess ts w = some s0) (h1 : loop Y F s0 pre = .ok sm)
    (h2 : loop Y F sm (c :: post) = .ok s')
    (P C : PTask) (hP : findTask ts P.id = some P) (hC : findTask ts c = some C) (hne : P.id ≠ c)
    (π : Pat) (hπP : (⟨π, none⟩ : Slot) ∈ P.pprods) (hπC : (⟨π, none⟩ : Slot) ∈ C.pdeps) : P.id ∈ pre := by
  have hi : LInv ts sm ([] ++ pre) := loop_inv pre s0 sm [] (initSess_inv h0) h1
  simp only [List.nil_append] at hi
  obtain ⟨hs, _, hl, hf, _⟩ := loop_cons h2
  refine Classical.byContradiction fun hnot => ?_
  have hg := hi.good hs
  -- `c` has not been handed out before (it is still a node of the sorter)
  have hcn : c ∉ pre := by
    intro hc
    obtain ⟨f, _, hr⟩ := hg.reach
    have hav := mem_avail.1 (hl.2.1 (tv c) (by simp))
    exact (reach_inv hr).disj (tv c) hav.1 (by rw [hi.done]; exact List.mem_map.2 ⟨c, hc, rfl⟩)
  have hP' := hi.untouched P.id P hnot hP
  have hC' := hi.untouched c C hcn hC
  obtain ⟨m, hdag⟩ := hg.dag
  have e1 : (tv P.id, nv π.node) ∈ sm.g.edges := by
    refine (createDag_spec hdag P (findTask_mem hP')).2.2 π.node ?_
    unfold PTask.allProds
    exact List.mem_append.2 (Or.inr (List.mem_flatMap.2 ⟨_, hπP, by simp [Slot.nodes]⟩))
  have e2 : (nv π.node, tv c) ∈ sm.g.edges := by
    have := (createDag_spec hdag C (findTask_mem hC')).2.1 π.node (by
      unfold PTask.allDeps
      exact List.mem_append.2 (Or.inr (List.mem_flatMap.2 ⟨_, hπC, by simp [Slot.nodes]⟩)))
    rwa [findTask_id hC'] at this
  have hanc : tv P.id ∈ sm.g.anc (tv c) := anc_two_step e1 e2 (fun h => hne (tv_inj' h))
  have : P.id ∈ taskAnc sm.g c := by
    unfold taskAnc
    refine List.mem_map.2 ⟨tv P.id, List.mem_filter.2 ⟨hanc, by unfold isTaskV tv; simp⟩, by unfold tv; omega⟩
  exact hnot (pick_order hi hs hl hf _ this)

/-- **C18_generated.** A build reaches state `sm` and hands out the generator `g` (not skipped, its body does not raise).
Let `kids` be what its body defines, given the files matching its pattern dependencies at that moment, all of them
collectable (since f1fcb9a a defined task whose collection fails makes the generator FAIL and nothing is added) and none of
them with the name of an existing or of another defined task (6571c4f: the generator FAILs likewise). If the build
then runs to its natural end (`s'`: nothing left to schedule, not stopped, no crash), every defined task `k` with a
fresh id (a) was handed out in the *same* build, after the generator, (b) has a report, (c) had its function called at
most once, and (d) was handed out only after all its own ancestors in the then-current graph had finished (C18_order).
The next build treats `k` like any other task (it is collected again by the generator and goes through the same
protocol: `C18_rerun_partial` / M6's incremental rules apply). -/
theorem C18_generated (Y : YieldFn) (F : BodyFn) (ts : List PTask) (w : World) (s0 sm s' : Prov.Sess) (pre : List Nat)
    (g : Nat) (post : List Nat) (h0 : initSess ts w = some s0) (h1 : loop Y F s0 pre = .ok sm)
    (h2 : loop Y F sm (g :: post) = .ok s')
    (G : PTask) (hG : findTask sm.tasks g = some G) (hgen : G.gen = true) (hnf : G.fails = false) (hfm : g ∉ sm.failMarks)
    (hrn : g ∉ (setupProvisional { sm with so := sm.so.take [tv g] } g).renewed)
    (hend : s'.stop = false ∧ s'.crashed = false ∧ s'.so.isActive = false)
    (hcoll : ∀ x ∈ Y g (G.pdeps.map (fun sl => sl.res.getD (sl.pat.glob sm.w.fs))), x.uncollectable = false)
    (hclash : nameClash sm.tasks (Y g (G.pdeps.map (fun sl => sl.res.getD (sl.pat.glob sm.w.fs)))) = false)
    (k : PTask) (hk : k ∈ Y g (G.pdeps.map (fun sl => sl.res.getD (sl.pat.glob sm.w.fs))))
    (hfresh : findTask sm.tasks k.id = none) :
    k.id ∈ post ∧ (∃ o, (k.id, o) ∈ s'.reports) ∧ s'.log.count k.id ≤ 1 := by
  have hi : LInv ts sm ([] ++ pre) := loop_inv pre s0 sm [] (initSess_inv h0) h1
  simp only [List.nil_append] at hi
  obtain ⟨_, _, _, _, h5⟩ := loop_cons h2
  have hall : loop Y F s0 (pre ++ g :: post) = .ok s' := by
    -- re-assemble the whole pick list
    have : ∀ (p : List Nat) (a b : Prov.Sess), loop Y F a p = .ok b → loop Y F b (g :: post) = .ok s' →
        loop Y F a (p ++ g :: post) = .ok s' := by
      intro p
      induction p with
      | nil => intro a b hab hb; simp only [loop, Except.ok.injEq] at hab; subst hab; exact hb
      | cons x xs ih =>
        intro a b hab hb
        obtain ⟨c1, c2, c3, c4, c5⟩ := loop_cons hab
        have hrec := ih _ b c5 hb
        show loop Y F a (x :: (xs ++ g :: post)) = .ok s'
        unfold loop
        have hl : legalBatchB a.so 1 [tv x] = true := (legalBatchB_iff _ _ _).2 c3
        have hact : a.so.isActive = true := by
          have := (mem_avail.1 (c3.2.1 (tv x) (by simp))).1
          unfold isActive
          cases hn : a.so.nodes with
          | nil => rw [hn] at this; cases this
          | cons a as => rfl
        rw [if_neg (by simp [c1, c2, hact]), if_neg (by simp [hl])]
        cases hf : findTask a.tasks x with
        | none => rw [hf] at c4; cases c4
        | some y => exact hrec
    exact this pre s0 sm h1 h2
  have hi' : LInv ts s' ([] ++ (pre ++ g :: post)) := loop_inv _ s0 s' [] (initSess_inv h0) hall
  simp only [List.nil_append] at hi'
  -- the defined task is in `session.tasks` after the generator's protocol, and stays known
  have hkin : k ∈ (stepOf Y F sm g).tasks := by
    show k ∈ (protocol Y F { sm with so := sm.so.take [tv g] } g).tasks
    refine protocol_gen_tasks Y F { sm with so := sm.so.take [tv g] } g G hG hgen hnf hfm hrn ?_ ?_ k ?_
    · rw [received_resolvedDeps]; exact hcoll
    · rw [received_resolvedDeps]; exact hclash
    · rw [received_resolvedDeps]; exact hk
  have hknown : (findTask s'.tasks k.id).isSome := (loop_mono post _ s' h5).2 _ (findTask_isSome_of_mem hkin)
  have hdone : k.id ∈ pre ++ g :: post := complete_all_done hi' hend.1 hend.2.2 _ hknown
  have hnpre : k.id ∉ pre := fun h => by
    have := hi.known _ h; rw [hfresh] at this; cases this
  have hng : k.id ≠ g := fun h => by rw [h, hG] at hfresh; cases hfresh
  have hpost : k.id ∈ post := by
    rcases List.mem_append.1 hdone with h | h
    · exact absurd h hnpre
    · rcases List.mem_cons.1 h with h | h
      · exact absurd h hng
      · exact h
  exact ⟨hpost, loop_reports _ s0 s' hall hend.2.1 _ hdone, (C18_gen_once Y F ts w s0 s' _ h0 hall k.id).2⟩

/-! ## Non-vacuity: the hypotheses of the theorems above hold together on concrete builds

Project: task 1 produces the pattern `[1000,1005)` (count read from node 100), generator 2 and consumer 3 depend on the
same pattern; the generator defines one copy task `20000+n` per received file. -/
def exPat : Pat := ⟨500000, 1000, 5⟩
def exProd : PTask := { id := 1, src := 9000, cnt := some 100, pprods := [⟨exPat, none⟩] }
def exGen : PTask := { id := 2, src := 9000, pdeps := [⟨exPat, none⟩], gen := true }
def exCons : PTask := { id := 3, src := 9000, pdeps := [⟨exPat, none⟩], prods := [200] }
def exTs : List PTask := [exProd, exGen, exCons]
def exY : YieldFn := fun g got =>
  if g == 2 then got.flatten.map (fun n => ({ id := 20000 + n, src := 9000, deps := [n], prods := [20000 + n] } : PTask)) else []
def exW : World := ⟨[(9000, 1), (100, 2)], []⟩
def exDummy : Prov.Sess := { tasks := [], g := G.empty, so := ⟨[], [], prio0, [], []⟩, w := ⟨[], []⟩ }
def exS0 : Prov.Sess := (initSess exTs exW).getD exDummy
def exSm : Prov.Sess := match loop exY f11F exS0 [1] with | .ok s => s | .error _ => exDummy
def exSm3 : Prov.Sess := match loop exY f11F exS0 [1, 2] with | .ok s => s | .error _ => exDummy
def exS' : Prov.Sess := match loop exY f11F exSm [2, 3, 21000, 21001] with | .ok s => s | .error _ => exDummy

set_option maxRecDepth 8000 in
/-- the complete first build: everything, generated tasks included, runs once, in the same build -/
example : (Prov.build exY f11F exTs exW [1, 2, 3, 21000, 21001]).toOption.map (fun r => (r.exit, r.complete, r.log, r.tasks, r.recv)) =
    some (0, true, [1, 2, 3, 21000, 21001], [1, 2, 3, 21000, 21001],
      [⟨1, [], []⟩, ⟨2, [[1000, 1001]], [[1000, 1001]]⟩, ⟨3, [[1000, 1001]], [[1000, 1001]]⟩, ⟨21000, [], []⟩, ⟨21001, [], []⟩]) := by
  decide +kernel

set_option maxRecDepth 8000 in
/-- `C18_generated`, `C18_producer_first`, `C18_order`, `C18_gen_once` instantiated on that build -/
example : 21001 ∈ [3, 21000, 21001] ∧ (∃ o, (21001, o) ∈ exS'.reports) ∧ exS'.log.count 21001 ≤ 1 :=
  C18_generated exY f11F exTs exW exS0 exSm exS' [1] 2 [3, 21000, 21001] (by rfl) (by rfl) (by rfl) exGen (by decide +kernel) rfl rfl
    (by decide +kernel) (by decide +kernel) (by decide +kernel) (by decide +kernel) (by decide +kernel) { id := 21001, src := 9000, deps := [1001], prods := [21001] } (by decide +kernel) (by decide +kernel)

set_option maxRecDepth 8000 in
example : exProd.id ∈ [1, 2] :=
  C18_producer_first exY f11F exTs exW exS0 exSm3 exS' [1, 2] 3 [21000, 21001] (by rfl) (by rfl) (by rfl) exProd exCons (by decide) (by decide)
    (by decide) exPat (by decide) (by decide)

set_option maxRecDepth 8000 in
/-- `C18_resolve`: the consumer's hypotheses hold in the state in which it is handed out, and it receives `[1000, 1001]` -/
example : findTask exSm3.tasks 3 = some exCons ∧ (∀ sl ∈ exCons.pdeps, sl.res = none) ∧
    (protocol exY f11F exSm3 3).recv = exSm3.recv ++ [⟨3, [[1000, 1001]], [[1000, 1001]]⟩] := by decide +kernel

/-! `C18_rerun_partial` on the F11 project: after the first build a file 1002 is dropped in (the set grows by a file
never recorded): all hypotheses hold and the body runs again. -/
def f11W3 : World := ⟨(1002, 9) :: f11R1.w.fs, f11R1.w.db⟩
def f11S3 : Prov.Sess := (initSess [f11Task] f11W3).getD exDummy
def f11S3' : Prov.Sess := match loop f11Y f11F f11S3 [1] with | .ok s => s | .error _ => exDummy

set_option maxRecDepth 8000 in
example : (stepOf f11Y f11F f11S3 1).log = f11S3.log ++ [1] ∨ (1, Outcome.fail) ∈ (stepOf f11Y f11F f11S3 1).reports :=
  C18_rerun_partial f11Y f11F [f11Task] f11W3 f11S3 f11S3 f11S3' [] 1 [] (by rfl) (by rfl) (by rfl) f11Task (by decide +kernel) rfl
    (by decide +kernel) (by decide +kernel) ⟨500000, 1000, 5⟩ (by decide) 1002 (by decide +kernel) (by decide +kernel) (by decide +kernel)

set_option maxRecDepth 8000 in
/-- … and indeed it is the first disjunct: the body runs and receives the grown set -/
example : (stepOf f11Y f11F f11S3 1).log = [1] ∧ (stepOf f11Y f11F f11S3 1).recv = [⟨1, [[1000, 1001, 1002]], [[1000, 1001, 1002]]⟩] := by
  decide +kernel

/-- **C18_rerun_runs.** As `C18_rerun_partial`, concluding outright that the task function is called, under the explicit
side condition that FAIL-for-a-missing-node is impossible: the task's module and its *non-pattern* dependencies exist
(a matched file exists by definition of matching), its pattern dependencies are still unresolved and it declares no
`after` (the only other source of predecessors: `createDag_neighbours_conv`). -/
theorem C18_rerun_runs (Y : YieldFn) (F : BodyFn) (ts : List PTask) (w : World) (s0 sm s' : Prov.Sess) (pre : List Nat)
    (t : Nat) (post : List Nat) (h0 : initSess ts w = some s0) (h1 : loop Y F s0 pre = .ok sm)
    (h2 : loop Y F sm (t :: post) = .ok s')
    (tk : PTask) (hf : findTask sm.tasks t = some tk) (hng : tk.gen = false) (hfm : t ∉ sm.failMarks)
    (hrn : t ∉ (setupProvisional { sm with so := sm.so.take [tv t] } t).renewed)
    (π : Pat) (hsl : (⟨π, none⟩ : Slot) ∈ tk.pdeps) (n : Nat) (hn : n ∈ π.glob sm.w.fs)
    (hch : hasChanged sm.w t (nv n) (lookup sm.w.fs n) = true)
    (hre : (setupProvisional { sm with so := sm.so.take [tv t] } t).stop = false)
    (hun : ∀ sl ∈ tk.pdeps, sl.res = none) (hafter : tk.after = [])
    (hdeps : ∀ d ∈ tk.cnt.toList ++ tk.deps, (lookup sm.w.fs d).isSome = true)
    (hsrc : (lookup sm.w.fs tk.src).isSome = true) :
    (stepOf Y F sm t).log = sm.log ++ [t] := by
  have hi : LInv ts sm ([] ++ pre) := loop_inv pre s0 sm [] (initSess_inv h0) h1
  obtain ⟨hs, _, hl, _, _⟩ := loop_cons h2
  have hg := hi.good hs
  generalize hsa : ({ sm with so := sm.so.take [tv t] } : Prov.Sess) = sa at hre hrn
  have hga : sa.stop = false → Good sa (([] ++ pre).map tv ++ [tv t]) := fun _ => by
    subst hsa
    exact ⟨hg.dag, by obtain ⟨f, hf, hr⟩ := hg.reach; exact ⟨f, hf, Reach.ready 1 [tv t] hr hl⟩, hg.nodes⟩
  have hfa : findTask sa.tasks t = some tk := by subst hsa; exact hf
  have hfma : t ∉ sa.failMarks := by subst hsa; exact hfm
  have hwa : sa.w = sm.w := by subst hsa; rfl
  have hloga : sa.log = sm.log := by subst hsa; rfl
  have hstep : stepOf Y F sm t = { protocol Y F sa t with so := (protocol Y F sa t).so.finish [tv t] } := by subst hsa; rfl
  rw [hstep]
  show (protocol Y F sa t).log = sm.log ++ [t]
  rw [← hloga]
  have hsp := setupProvisional_spec sa t tk hfa
  have hg1 : Good (setupProvisional sa t) _ := (setupProvisional_moves sa t).good.2.2 _ hga hre
  have hunr : unresolved tk.pdeps = true := by
    unfold unresolved; exact List.any_eq_true.2 ⟨_, hsl, rfl⟩
  have hdep : n ∈ (resolvedDeps sa.w.fs tk).allDeps := by
    unfold resolvedDeps PTask.allDeps
    simp only [hunr, if_true]
    refine List.mem_append.2 (Or.inr (List.mem_flatMap.2 ⟨Slot.resolve sa.w.fs ⟨π, none⟩, List.mem_map.2 ⟨_, hsl, rfl⟩, ?_⟩))
    rw [hwa]; exact hn
  obtain ⟨m, hdag⟩ := hg1.dag
  have hedge := (createDag_spec hdag _ (findTask_mem hsp.2)).2.1 n hdep
  have hid1 := findTask_id hsp.2
  rw [hid1] at hedge
  have hpred : nv n ∈ (setupProvisional sa t).g.preds (tv t) := mem_preds.2 hedge
  have hw1 : (setupProvisional sa t).w = sm.w := by rw [hsp.1.1, hwa]
  have hch' : hasChanged (setupProvisional sa t).w t (nv n)
      (stateOf (toProject (setupProvisional sa t).tasks) (setupProvisional sa t).w (nv n)) = true := by
    rw [stateOf_nv, hw1]; exact hch
  have hne1 := scanP_changed (toProject (setupProvisional sa t).tasks) (setupProvisional sa t).g (setupProvisional sa t).w
    (provNodes (setupProvisional sa t).tasks) t (nv n) hpred hch' (neighbours (setupProvisional sa t).g t) false
    (by unfold neighbours; simp [hpred])
  -- no predecessor is missing
  have hall := resolvedDeps_allDeps_exist sm.w.fs tk hun hdeps
  have htasks := setupProvisional_tasks sa t tk hfa hunr
  have hne2 := scanP_not_missing (toProject (setupProvisional sa t).tasks) (setupProvisional sa t).g (setupProvisional sa t).w
    (provNodes (setupProvisional sa t).tasks) t (neighbours (setupProvisional sa t).g t) false (by
      intro v _ hv
      simp only [Bool.or_eq_true, List.contains_iff_mem, beq_iff_eq] at hv
      rcases hv with hv | rfl
      · rcases (createDag_neighbours_conv hdag t).1 v hv with ⟨u, hu, huid, d, hd, rfl⟩ | ⟨u, hu, huid, ha⟩
        · have hu1 : u = resolvedDeps sa.w.fs tk := by
            rw [htasks] at hu
            rcases mem_setTask hu with h | h
            · exact h
            · exact absurd (huid.trans hid1.symm) h.2
          rw [stateOf_nv, hw1]
          rw [hu1, hwa] at hd
          exact hall d hd
        · have hu1 : u = resolvedDeps sa.w.fs tk := by
            rw [htasks] at hu
            rcases mem_setTask hu with h | h
            · exact h
            · exact absurd (huid.trans hid1.symm) h.2
          exfalso
          apply ha
          rw [hu1]; unfold resolvedDeps; split <;> exact hafter
      · rw [stateOf_tv _ hsp.2, hw1]
        have : (resolvedDeps sa.w.fs tk).src = tk.src := by unfold resolvedDeps; split <;> rfl
        rw [this]; exact hsrc)
  have hscan := scan_cases _ hne1 hne2
  have hrp := runPhases_changed Y F sa t tk hfa hng hfma hrn hscan
  unfold protocol
  rw [(reportChain_frame _ t _).2.2.2.2.1]
  exact hrp

/-- **C18_consumer_sees_producer_output** (build level; combines `C18_resolve` and `C18_producer_first`). In every build
the model accepts — collected tasks `ts`, any accepted pick list — every invocation `e` of a task function happened at
one definite pick: after a prefix `pre` of the picks the loop was in state `sm` and handed out `e.task`, and
* each pattern argument it received is the list of files matching the pattern in the world of `sm` (the task's setup
  instant) — for an argument still unresolved then, which is every argument of a collected task (its record `C` is
  untouched until its own pick) — and the body's own glob saw exactly the same lists;
* every collected task `P` declaring one of these patterns as a product had completed its whole protocol before
  (`P.id ∈ pre`), and the received list contains **every** file of the pattern's range that exists at that instant — in
  particular every file `P` wrote in this build that still exists. -/
theorem C18_consumer_sees_producer_output (Y : YieldFn) (F : BodyFn) (ts : List PTask) (w : World) (s0 s' : Prov.Sess)
    (picks : List Nat) (h0 : initSess ts w = some s0) (h1 : loop Y F s0 picks = .ok s') (e : Recv) (he : e ∈ s'.recv) :
    ∃ pre post sm tk, picks = pre ++ e.task :: post ∧ loop Y F s0 pre = .ok sm ∧ findTask sm.tasks e.task = some tk ∧
      e.got = tk.pdeps.map (fun sl => sl.res.getD (sl.pat.glob sm.w.fs)) ∧
      e.seen = tk.pdeps.map (fun sl => sl.pat.glob sm.w.fs) ∧
      (∀ C, findTask ts e.task = some C → tk = C ∧
        ∀ (P : PTask) (π : Pat), findTask ts P.id = some P → P.id ≠ e.task →
          (⟨π, none⟩ : Slot) ∈ P.pprods → (⟨π, none⟩ : Slot) ∈ C.pdeps →
          P.id ∈ pre ∧ π.glob sm.w.fs ∈ e.got ∧
          ∀ n, π.lo ≤ n → n < π.lo + π.len → (lookup sm.w.fs n).isSome = true → n ∈ π.glob sm.w.fs) := by
  have hempty := initSess_empty h0
  rcases loop_recv picks s0 s' h1 e he with h | ⟨pre, t, post, sm, tk, hp, hl, hf, heq⟩
  · rw [hempty.1] at h; cases h
  · have het : e.task = t := by rw [heq]
    have hgot : e.got = tk.pdeps.map (fun sl => sl.res.getD (sl.pat.glob sm.w.fs)) := by
      rw [heq]; exact received_resolvedDeps _ _
    have hseen : e.seen = tk.pdeps.map (fun sl => sl.pat.glob sm.w.fs) := by
      rw [heq]; exact seenBy_resolvedDeps _ _ _
    rw [het]
    refine ⟨pre, post, sm, tk, hp, hl, hf, hgot, hseen, fun C hC => ?_⟩
    have hnd : picks.Nodup := by simpa using loop_nodup picks s0 s' [] (initSess_inv h0) List.nodup_nil h1
    have htn : t ∉ pre := by
      rw [hp] at hnd
      have := (List.nodup_append.1 hnd).2.2
      intro hin
      exact this t hin t (by simp) rfl
    have hi : LInv ts sm ([] ++ pre) := loop_inv pre s0 sm [] (initSess_inv h0) hl
    simp only [List.nil_append] at hi
    have htk : tk = C := by
      have := hi.untouched t C htn hC
      rw [hf] at this; exact Option.some.inj this
    refine ⟨htk, fun P π hP hne hπP hπC => ?_⟩
    have hrest : loop Y F sm (t :: post) = .ok s' := by
      rw [hp] at h1
      obtain ⟨sm', ha, hb⟩ := loop_append pre (t :: post) s0 s' h1
      rw [hl] at ha
      rw [Except.ok.inj ha]; exact hb
    refine ⟨C18_producer_first Y F ts w s0 sm s' pre t post h0 hl hrest P C hP hC hne π hπP hπC, ?_, ?_⟩
    · rw [hgot, htk]
      exact List.mem_map.2 ⟨⟨π, none⟩, hπC, rfl⟩
    · intro n a b c
      exact mem_glob.2 ⟨a, b, c⟩

/-- **C18_generator_always_runs.** By design a task generator is executed in every build (its states are never
recorded): whenever a build hands out a generator that is not skipped because an ancestor failed, its function is called.
What it then defines is `Y g (lists received)`: the same tasks as in the previous build iff it receives the same lists
(`Y` is a function; `C18_generated` shows they join `session.tasks` and are scheduled in the same build). -/
theorem C18_generator_always_runs (Y : YieldFn) (F : BodyFn) (ts : List PTask) (w : World) (s0 sm s' : Prov.Sess)
    (pre : List Nat) (g : Nat) (post : List Nat) (_h0 : initSess ts w = some s0) (_h1 : loop Y F s0 pre = .ok sm)
    (_h2 : loop Y F sm (g :: post) = .ok s') (G : PTask) (hG : findTask sm.tasks g = some G) (hgen : G.gen = true)
    (hfm : g ∉ sm.failMarks) (hrn : g ∉ (setupProvisional { sm with so := sm.so.take [tv g] } g).renewed) :
    (stepOf Y F sm g).log = sm.log ++ [g] :=
  protocol_gen_log Y F { sm with so := sm.so.take [tv g] } g G hG hgen hfm hrn

/-- **C18_generated_incremental** (two builds; the C03 shape for tasks without pattern arguments — in particular the
copy tasks a generator defines per matched file, and their plain dependants).

Build A (tasks `tsA`, any world) hands out `k` with record `K` (no pattern arguments, no `after`); its function is
called, it does not fail, nothing crashes. Build B (tasks `tsB`, **any** file system `fsB`, the database build A left)
reaches `k` again with the same record `K` (collected again, or defined again by its generator — generators always run,
`C18_generator_always_runs`), `k`'s id is unique and `k` is not skip-marked. Then
* **unchanged ⇒ not executed**: if every dependency, the module and every product of `K` has, at that moment, the
  content it had right after `k`'s protocol in build A, then the function of `k` is not called and `k` is reported
  `SKIP_UNCHANGED`;
* **changed ⇒ executed**: if some dependency `d` (e.g. the matched source file of a copy task) has another content, and
  the dependencies and the module exist, the function of `k` is called. -/
theorem C18_generated_incremental (Y : YieldFn) (F : BodyFn)
    (tsA : List PTask) (wA : World) (s0A smA sA : Prov.Sess) (preA : List Nat) (k : Nat) (postA : List Nat)
    (h0A : initSess tsA wA = some s0A) (h1A : loop Y F s0A preA = .ok smA) (h2A : loop Y F smA (k :: postA) = .ok sA)
    (K : PTask) (hKA : findTask smA.tasks k = some K) (hng : K.gen = false) (hpd : K.pdeps = []) (hpp : K.pprods = [])
    (hafter : K.after = [])
    (hranA : (stepOf Y F smA k).log = smA.log ++ [k]) (hnfA : (k, Outcome.fail) ∉ (stepOf Y F smA k).reports)
    (hcrA : (stepOf Y F smA k).crashed = false)
    (tsB : List PTask) (fsB : FS) (s0B smB sB : Prov.Sess) (preB postB : List Nat)
    (h0B : initSess tsB ⟨fsB, sA.w.db⟩ = some s0B) (h1B : loop Y F s0B preB = .ok smB) (h2B : loop Y F smB (k :: postB) = .ok sB)
    (hKB : findTask smB.tasks k = some K) (huniq : ∀ u ∈ smB.tasks, u.id = k → u = K) (hfmB : k ∉ smB.failMarks) (hrnB : k ∉ smB.renewed) :
    ((∀ x ∈ K.allDeps ++ [K.src] ++ K.allProds, lookup smB.w.fs x = lookup (stepOf Y F smA k).w.fs x) →
      (stepOf Y F smB k).log = smB.log ∧ (stepOf Y F smB k).reports = smB.reports ++ [(k, Outcome.skipUnchanged)]) ∧
    (∀ d ∈ K.allDeps, lookup smB.w.fs d ≠ lookup (stepOf Y F smA k).w.fs d →
      (∀ x ∈ K.allDeps, (lookup smB.w.fs x).isSome = true) → (lookup smB.w.fs K.src).isSome = true →
      (stepOf Y F smB k).log = smB.log ++ [k]) := by
  have hid : K.id = k := findTask_id hKA
  -- build A: what the successful protocol of k recorded
  have hiA : LInv tsA smA ([] ++ preA) := loop_inv preA s0A smA [] (initSess_inv h0A) h1A
  simp only [List.nil_append] at hiA
  obtain ⟨hsA, _, hlA, _, h5A⟩ := loop_cons h2A
  have hkA : k ∉ preA := pick_fresh hiA hsA hlA
  have htwA : k ∉ smA.twp := fun h => hkA (by
    simpa using loop_twp preA s0A smA [] (by rw [initSess_twp h0A]; intro u hu; cases hu) h1A k h)
  obtain ⟨mA, hdagA⟩ := (hiA.good hsA).dag
  have hrecA : Recorded (stepOf Y F smA k).w K :=
    plain_records Y F { smA with so := smA.so.take [tv k] } k K mA hdagA hKA hng hpd hpp htwA hranA hnfA hcrA
  -- the rows of k survive the rest of build A and the prefix of build B
  have hndA : (preA ++ k :: postA).Nodup := by
    have hall := loop_append_ok preA (k :: postA) s0A smA sA h1A h2A
    simpa using loop_nodup _ s0A sA [] (initSess_inv h0A) List.nodup_nil hall
  have hkpostA : k ∉ postA := by
    have := (List.nodup_append.1 hndA).2.1
    exact (List.nodup_cons.1 this).1
  have hiB : LInv tsB smB ([] ++ preB) := loop_inv preB s0B smB [] (initSess_inv h0B) h1B
  simp only [List.nil_append] at hiB
  obtain ⟨hsB, _, hlB, _, _⟩ := loop_cons h2B
  have hkB : k ∉ preB := pick_fresh hiB hsB hlB
  have htwB : k ∉ smB.twp := fun h => hkB (by
    simpa using loop_twp preB s0B smB [] (by rw [initSess_twp h0B]; intro u hu; cases hu) h1B k h)
  have hdb : ∀ v, lookup smB.w.db (tv k, v) = lookup (stepOf Y F smA k).w.db (tv k, v) := by
    intro v
    rw [loop_db_other k v preB s0B smB h1B hkB, (initSess_empty h0B).2.2.2.1]
    exact loop_db_other k v postA _ sA h5A hkpostA
  obtain ⟨mB, hdagB⟩ := (hiB.good hsB).dag
  let sb : Prov.Sess := { smB with so := smB.so.take [tv k] }
  have hstepB : stepOf Y F smB k = { protocol Y F sb k with so := (protocol Y F sb k).so.finish [tv k] } := rfl
  refine ⟨fun hsame => ?_, fun d hd hne hex hsrc => ?_⟩
  · have hrecB : Recorded smB.w K := by
      refine ⟨fun x hx => ?_, ?_, fun p hp => ?_⟩
      · obtain ⟨h, e1, e2⟩ := hrecA.1 x hx
        exact ⟨h, by rw [hsame x (by simp [hx])]; exact e1, by rw [hid, hdb]; rw [hid] at e2; exact e2⟩
      · obtain ⟨h, e1, e2⟩ := hrecA.2.1
        exact ⟨h, by rw [hsame K.src (by simp)]; exact e1, by rw [hid, hdb]; rw [hid] at e2; exact e2⟩
      · obtain ⟨h, e1, e2⟩ := hrecA.2.2 p hp
        exact ⟨h, by rw [hsame p (by simp [hp])]; exact e1, by rw [hid, hdb]; rw [hid] at e2; exact e2⟩
    have := plain_skip Y F sb k K mB hdagB hKB hng hpd hpp htwB hfmB hrnB huniq hafter hrecB
    rw [hstepB, this]
    exact ⟨rfl, rfl⟩
  · obtain ⟨h, e1, e2⟩ := hrecA.1 d hd
    have hch : hasChanged smB.w k (nv d) (lookup smB.w.fs d) = true := by
      unfold hasChanged
      cases hcur : lookup smB.w.fs d with
      | none => rfl
      | some c =>
        have hrow : lookup smB.w.db (tv k, nv d) = some h := by rw [hdb]; rw [hid] at e2; exact e2
        simp only [hrow]
        have : c ≠ h := by
          intro e; apply hne; rw [hcur, e1, e]
        simpa using fun e => this e.symm
    have := plain_runs Y F sb k K mB hdagB hKB hng hpd hpp htwB hfmB hrnB huniq hafter d hd hch hex hsrc
    rw [hstepB]
    exact this

/-! ## Non-vacuity of the build-level / two-build theorems -/

set_option maxRecDepth 8000 in
/-- `C18_rerun_runs` on the F11 project after a file was dropped in: all side conditions hold. -/
example : (stepOf f11Y f11F f11S3 1).log = f11S3.log ++ [1] :=
  C18_rerun_runs f11Y f11F [f11Task] f11W3 f11S3 f11S3 f11S3' [] 1 [] (by rfl) (by rfl) (by rfl) f11Task (by decide +kernel) rfl
    (by decide +kernel) (by decide +kernel) ⟨500000, 1000, 5⟩ (by decide) 1002 (by decide +kernel) (by decide +kernel) (by decide +kernel)
    (by decide) rfl (by decide +kernel) (by decide +kernel)

def exFull : Prov.Sess := match loop exY f11F exS0 [1, 2, 3, 21000, 21001] with | .ok s => s | .error _ => exDummy

set_option maxRecDepth 8000 in
/-- `C18_consumer_sees_producer_output` for the consumer's invocation in the complete first build -/
example := C18_consumer_sees_producer_output exY f11F exTs exW exS0 exFull [1, 2, 3, 21000, 21001] (by rfl) (by rfl)
  ⟨3, [[1000, 1001]], [[1000, 1001]]⟩ (by decide +kernel)

/-! Second build of the same project on the world the first one left (no edits): the copy task 21000 is defined again by
the generator and skipped; with its source file 1000 rewritten it is executed. -/
def exK : PTask := { id := 21000, src := 9000, deps := [1000], prods := [21000] }
def exSmA : Prov.Sess := match loop exY f11F exS0 [1, 2, 3] with | .ok s => s | .error _ => exDummy
def exB0 : Prov.Sess := (initSess exTs ⟨exFull.w.fs, exFull.w.db⟩).getD exDummy
def exSmB : Prov.Sess := match loop exY f11F exB0 [1, 2, 3] with | .ok s => s | .error _ => exDummy
def exSB : Prov.Sess := match loop exY f11F exSmB [21000, 21001] with | .ok s => s | .error _ => exDummy

set_option maxRecDepth 8000 in
example : (stepOf exY f11F exSmB 21000).log = exSmB.log ∧
    (stepOf exY f11F exSmB 21000).reports = exSmB.reports ++ [(21000, Outcome.skipUnchanged)] :=
  (C18_generated_incremental exY f11F exTs exW exS0 exSmA exFull [1, 2, 3] 21000 [21001] (by rfl) (by rfl) (by rfl)
    exK (by decide +kernel) rfl rfl rfl rfl (by decide +kernel) (by decide +kernel) (by decide +kernel)
    exTs exFull.w.fs exB0 exSmB exSB [1, 2, 3] [21001] (by rfl) (by rfl) (by rfl)
    (by decide +kernel) (by decide +kernel) (by decide +kernel) (by decide +kernel)).1 (by decide +kernel)

set_option maxRecDepth 8000 in
/-- in that second build the generator ran again (it is the only body that did) -/
example : exSmB.log = [2] := by decide +kernel

def exB0' : Prov.Sess := (initSess exTs ⟨Engine.insert exFull.w.fs 1000 77, exFull.w.db⟩).getD exDummy
def exSmB' : Prov.Sess := match loop exY f11F exB0' [1, 2, 3] with | .ok s => s | .error _ => exDummy
def exSB' : Prov.Sess := match loop exY f11F exSmB' [21000, 21001] with | .ok s => s | .error _ => exDummy

set_option maxRecDepth 8000 in
example : (stepOf exY f11F exSmB' 21000).log = exSmB'.log ++ [21000] :=
  (C18_generated_incremental exY f11F exTs exW exS0 exSmA exFull [1, 2, 3] 21000 [21001] (by rfl) (by rfl) (by rfl)
    exK (by decide +kernel) rfl rfl rfl rfl (by decide +kernel) (by decide +kernel) (by decide +kernel)
    exTs (Engine.insert exFull.w.fs 1000 77) exB0' exSmB' exSB' [1, 2, 3] [21001] (by rfl) (by rfl) (by rfl)
    (by decide +kernel) (by decide +kernel) (by decide +kernel) (by decide +kernel)).2 1000 (by decide) (by decide +kernel) (by decide +kernel)
    (by decide +kernel)

/-- **C18_no_fail_no_marks** — discharges the mark hypotheses of the theorems above. In a build in which no task has been
reported FAIL so far, no task carries a `skip_ancestor_failed` mark: neither one attached when an ancestor failed
(`failMarks`), nor one renewed by `recreate_dag` (`renewed`), also not after the resolution of `t`'s own pattern
dependencies re-created the DAG (provided that re-creation succeeded). -/
theorem C18_no_fail_no_marks (Y : YieldFn) (F : BodyFn) (ts : List PTask) (w : World) (s0 sm : Prov.Sess) (pre : List Nat)
    (h0 : initSess ts w = some s0) (h1 : loop Y F s0 pre = .ok sm) (hnf : NoFail sm) (t : Nat) :
    t ∉ sm.failMarks ∧ t ∉ sm.renewed ∧
    ((setupProvisional { sm with so := sm.so.take [tv t] } t).stop = false →
      t ∉ (setupProvisional { sm with so := sm.so.take [tv t] } t).renewed) := by
  have hc : CleanMarks sm := (loop_marks pre s0 sm h1).1 (initSess_marks h0).1
  obtain ⟨e1, e2, _⟩ := hc hnf
  refine ⟨by rw [e1]; simp, by rw [e2]; simp, fun hre => ?_⟩
  have hm := setupProvisional_marks { sm with so := sm.so.take [tv t] } t
  have hrep := hm.reports_of_running hre
  have hc1 := hm.invariants.2.2.2.1 (show CleanMarks { sm with so := sm.so.take [tv t] } from hc)
  have := (hc1 (fun r hr => hnf r (by rw [hrep] at hr; exact hr))).2.1
  rw [this]; simp

/-- `C18_rerun_runs` with the mark hypotheses discharged: in a build in which nothing has failed so far. -/
theorem C18_rerun_runs_of_no_failure (Y : YieldFn) (F : BodyFn) (ts : List PTask) (w : World) (s0 sm s' : Prov.Sess) (pre : List Nat)
    (t : Nat) (post : List Nat) (h0 : initSess ts w = some s0) (h1 : loop Y F s0 pre = .ok sm)
    (h2 : loop Y F sm (t :: post) = .ok s') (hnf : NoFail sm)
    (tk : PTask) (hf : findTask sm.tasks t = some tk) (hng : tk.gen = false)
    (π : Pat) (hsl : (⟨π, none⟩ : Slot) ∈ tk.pdeps) (n : Nat) (hn : n ∈ π.glob sm.w.fs)
    (hch : hasChanged sm.w t (nv n) (lookup sm.w.fs n) = true)
    (hre : (setupProvisional { sm with so := sm.so.take [tv t] } t).stop = false)
    (hun : ∀ sl ∈ tk.pdeps, sl.res = none) (hafter : tk.after = [])
    (hdeps : ∀ d ∈ tk.cnt.toList ++ tk.deps, (lookup sm.w.fs d).isSome = true)
    (hsrc : (lookup sm.w.fs tk.src).isSome = true) :
    (stepOf Y F sm t).log = sm.log ++ [t] := by
  obtain ⟨a, _, c⟩ := C18_no_fail_no_marks Y F ts w s0 sm pre h0 h1 hnf t
  exact C18_rerun_runs Y F ts w s0 sm s' pre t post h0 h1 h2 tk hf hng a (c hre) π hsl n hn hch hre hun hafter hdeps hsrc

/-- **C18_failed_ancestor_skips** (the C04 clause seen from M7). A build reaches state `sm` in which task `f` has been
reported FAIL, and hands out `t`. If `t` lies below `f` in the graph as it is when the skipping hook looks — i.e. after
`t`'s own pattern dependencies were resolved and the DAG re-created; `t` may have been created by a generator, or linked
to `f` through a resolved pattern, *after* `f` failed (ee6b73e) — then `t` is not executed: its function is not called
and it is reported SKIP_PREVIOUS_FAILED. -/
theorem C18_failed_ancestor_skips (Y : YieldFn) (F : BodyFn) (ts : List PTask) (w : World) (s0 sm s' : Prov.Sess) (pre : List Nat)
    (t : Nat) (post : List Nat) (h0 : initSess ts w = some s0) (h1 : loop Y F s0 pre = .ok sm)
    (h2 : loop Y F sm (t :: post) = .ok s') (tk : PTask) (hf : findTask sm.tasks t = some tk)
    (f : Nat) (hfail : (f, Outcome.fail) ∈ sm.reports)
    (hre : (setupProvisional { sm with so := sm.so.take [tv t] } t).stop = false)
    (hbelow : t ∈ taskDesc (setupProvisional { sm with so := sm.so.take [tv t] } t).g f) :
    (stepOf Y F sm t).log = sm.log ∧ (stepOf Y F sm t).reports = sm.reports ++ [(t, Outcome.skipPrevFailed)] := by
  have hb : BelowFailedMarked sm := (loop_marks pre s0 sm h1).2 (initSess_marks h0).2
  generalize hsa : ({ sm with so := sm.so.take [tv t] } : Prov.Sess) = sa at hre hbelow
  have hba : BelowFailedMarked sa := by subst hsa; exact hb
  have hfa : findTask sa.tasks t = some tk := by subst hsa; exact hf
  have hrepa : sa.reports = sm.reports := by subst hsa; rfl
  have hloga : sa.log = sm.log := by subst hsa; rfl
  have hstep : stepOf Y F sm t = { protocol Y F sa t with so := (protocol Y F sa t).so.finish [tv t] } := by subst hsa; rfl
  have hm := setupProvisional_marks sa t
  have hrep := hm.reports_of_running hre
  have hmarked : failMarked (setupProvisional sa t) t = true :=
    hm.invariants.2.2.2.2 hba hre f t (by rw [hrep, hrepa]; exact hfail) hbelow
  have hsp := setupProvisional_spec sa t tk hfa
  rw [hstep]
  show (protocol Y F sa t).log = sm.log ∧ (protocol Y F sa t).reports = sm.reports ++ [(t, Outcome.skipPrevFailed)]
  unfold protocol runPhases
  rw [setupChain_eval]
  simp only [hmarked, if_true]
  rw [reportChain_eval]
  simp only [addReport]
  exact ⟨by rw [hsp.1.2.1, hloga], by rw [hrep, hrepa]⟩

/-! Non-vacuity: task 1 (product 200) fails; afterwards generator 2 defines task 3, which depends on 200. When 1 failed, 3
did not exist; the re-creation of the DAG after the generator renews the mark, and 3 is skipped. -/
def faTs : List PTask := [{ id := 1, src := 9000, prods := [200], fails := true }, { id := 2, src := 9000, gen := true }]
def faY : YieldFn := fun g _ => if g == 2 then [{ id := 3, src := 9000, deps := [200], prods := [201] }] else []
def faW : World := ⟨[(9000, 1)], []⟩
def faS0 : Prov.Sess := (initSess faTs faW).getD exDummy
def faSm : Prov.Sess := match loop faY f11F faS0 [1, 2] with | .ok s => s | .error _ => exDummy
def faS' : Prov.Sess := match loop faY f11F faSm [3] with | .ok s => s | .error _ => exDummy

set_option maxRecDepth 8000 in
example : (stepOf faY f11F faSm 3).log = faSm.log ∧ (stepOf faY f11F faSm 3).reports = faSm.reports ++ [(3, Outcome.skipPrevFailed)] :=
  C18_failed_ancestor_skips faY f11F faTs faW faS0 faSm faS' [1, 2] 3 [] (by rfl) (by rfl) (by rfl)
    { id := 3, src := 9000, deps := [200], prods := [201] } (by decide +kernel) 1 (by decide +kernel) (by decide +kernel) (by decide +kernel)

set_option maxRecDepth 8000 in
/-- the mark is a renewed one: task 3 was no descendant of task 1 when 1 failed -/
example : faSm.failMarks = [] ∧ faSm.renewed = [3] ∧ faSm.reports = [(1, Outcome.fail), (2, Outcome.success)] := by decide +kernel

set_option maxRecDepth 8000 in
/-- `C18_rerun_runs_of_no_failure` / `C18_no_fail_no_marks` on the F11 project after a file was dropped in -/
example : (stepOf f11Y f11F f11S3 1).log = f11S3.log ++ [1] :=
  C18_rerun_runs_of_no_failure f11Y f11F [f11Task] f11W3 f11S3 f11S3 f11S3' [] 1 [] (by rfl) (by rfl) (by rfl)
    (by show ∀ r ∈ f11S3.reports, r.2 ≠ Outcome.fail; decide +kernel) f11Task (by decide +kernel) rfl ⟨500000, 1000, 5⟩ (by decide) 1002 (by decide +kernel) (by decide +kernel) (by decide +kernel)
    (by decide) rfl (by decide +kernel) (by decide +kernel)

/-- **C18_declared_link.** Declared product → declared dependency is a link of the graph: if, in a running build, the record
of `r` still declares the node `n` as a product (a path, or a directory pattern — resolved or not) and the record of `c`
declares `n` as a dependency, then `c` lies below `r` in the session's graph. -/
theorem C18_declared_link (Y : YieldFn) (F : BodyFn) (ts : List PTask) (w : World) (s0 sm : Prov.Sess) (pre : List Nat)
    (h0 : initSess ts w = some s0) (h1 : loop Y F s0 pre = .ok sm) (hs : sm.stop = false)
    (r c : Nat) (R C : PTask) (hR : findTask sm.tasks r = some R) (hC : findTask sm.tasks c = some C) (hne : c ≠ r)
    (n : Nat) (hn1 : n ∈ R.allProds) (hn2 : n ∈ C.allDeps) : c ∈ taskDesc sm.g r := by
  have hi : LInv ts sm ([] ++ pre) := loop_inv pre s0 sm [] (initSess_inv h0) h1
  obtain ⟨m, hdag⟩ := (hi.good hs).dag
  have e1 := (createDag_spec hdag R (findTask_mem hR)).2.2 n hn1
  have e2 := (createDag_spec hdag C (findTask_mem hC)).2.1 n hn2
  rw [findTask_id hR] at e1
  rw [findTask_id hC] at e2
  exact mem_taskDesc_iff.2 ⟨G.Reach.step e1 (G.Reach.edge e2), hne⟩

/-- **C18_failed_root.** In a running build everything below a task reported FAIL — in the current graph, whenever it was
created or linked — carries the `skip_ancestor_failed` mark. -/
theorem C18_failed_root (Y : YieldFn) (F : BodyFn) (ts : List PTask) (w : World) (s0 sm : Prov.Sess) (pre : List Nat)
    (h0 : initSess ts w = some s0) (h1 : loop Y F s0 pre = .ok sm) (f : Nat) (hf : (f, Outcome.fail) ∈ sm.reports) :
    BelowRoots [f] sm := by
  have hb : BelowFailedMarked sm := (loop_marks pre s0 sm h1).2 (initSess_marks h0).2
  intro hs x hx d hd
  have : x = f := by simpa using hx
  subst this
  exact hb hs x d hf hd

/-- **C18_failed_ancestor_skips_step.** `r` has been reported FAIL or SKIP_PREVIOUS_FAILED and everything below it is marked;
the build hands out `c`, which lies below `r` in the graph at that moment (e.g. by `C18_declared_link`). Then `c` is not
executed — its function is not called, it is reported SKIP_PREVIOUS_FAILED — and afterwards everything below `c` is marked
as well (and everything below `r` still is): the resolution of `c`'s own pattern dependencies may cut its connection to `r`
in the re-created DAG, but what lies below `c` was already marked, and `c` is now a root of every later renewal (501f7e1). -/
theorem C18_failed_ancestor_skips_step (Y : YieldFn) (F : BodyFn) (ts : List PTask) (w : World) (s0 sm : Prov.Sess) (pre : List Nat)
    (c : Nat) (h0 : initSess ts w = some s0) (h1 : loop Y F s0 pre = .ok sm) (h2 : loop Y F sm [c] = .ok (stepOf Y F sm c))
    (r : Nat) (hr : BadReported [r] sm) (hbr : BelowRoots [r] sm) (hlink : c ∈ taskDesc sm.g r)
    (hre : (setupProvisional { sm with so := sm.so.take [tv c] } c).stop = false) :
    (stepOf Y F sm c).log = sm.log ∧ (stepOf Y F sm c).reports = sm.reports ++ [(c, Outcome.skipPrevFailed)] ∧
    BadReported [c] (stepOf Y F sm c) ∧ BelowRoots [c] (stepOf Y F sm c) ∧
    BadReported [r] (stepOf Y F sm c) ∧ BelowRoots [r] (stepOf Y F sm c) := by
  have hi : LInv ts sm ([] ++ pre) := loop_inv pre s0 sm [] (initSess_inv h0) h1
  obtain ⟨hs, _, hl, hfs, _⟩ := loop_cons h2
  have hg := hi.good hs
  cases hfc : findTask sm.tasks c with
  | none => rw [hfc] at hfs; cases hfs
  | some Cr =>
    generalize hsa : ({ sm with so := sm.so.take [tv c] } : Prov.Sess) = sa at hre
    have hga : sa.stop = false → Good sa (([] ++ pre).map tv ++ [tv c]) := fun _ => by
      subst hsa
      exact ⟨hg.dag, by obtain ⟨f, hf, hr'⟩ := hg.reach; exact ⟨f, hf, Reach.ready 1 [tv c] hr' hl⟩, hg.nodes⟩
    have hfa : findTask sa.tasks c = some Cr := by subst hsa; exact hfc
    have hra : BadReported [r] sa := by subst hsa; exact hr
    have hbra : BelowRoots [r] sa := by subst hsa; exact hbr
    have hlinka : c ∈ taskDesc sa.g r := by subst hsa; exact hlink
    have hloga : sa.log = sm.log := by subst hsa; rfl
    have hrepa : sa.reports = sm.reports := by subst hsa; rfl
    have hstep : stepOf Y F sm c = { protocol Y F sa c with so := (protocol Y F sa c).so.finish [tv c] } := by subst hsa; rfl
    obtain ⟨m0, hd0⟩ : ∃ m0, Engine.createDag (toProject sa.tasks) {} = Except.ok (sa.g, m0) := by subst hsa; exact hg.dag
    have hg1 : Good (setupProvisional sa c) _ := (setupProvisional_moves sa c).good.2.2 _ hga hre
    obtain ⟨m1, hd1⟩ := hg1.dag
    obtain ⟨hprot, hbc⟩ := skipped_marks_below Y F sa c Cr m0 m1 hd0 hfa hre hd1 r hra hbra hlinka
    have hsp := setupProvisional_spec sa c Cr hfa
    have hrep1 := (setupProvisional_marks sa c).reports_of_running hre
    have hroots := protocol_belowRoots Y F sa c [r] hra
    rw [hstep]
    refine ⟨?_, ?_, ?_, ?_, hroots.1, hroots.2 hbra⟩
    · show (protocol Y F sa c).log = sm.log
      rw [hprot]; simp only [addReport]; rw [hsp.1.2.1, hloga]
    · show (protocol Y F sa c).reports = sm.reports ++ [(c, Outcome.skipPrevFailed)]
      rw [hprot]; simp only [addReport]; rw [hrep1, hrepa]
    · intro x hx
      have : x = c := by simpa using hx
      subst this
      right
      show (x, Outcome.skipPrevFailed) ∈ (protocol Y F sa x).reports
      rw [hprot]; simp [addReport]
    · show BelowRoots [c] (protocol Y F sa c)
      rw [hprot]
      exact hbc

/-- A run of the build along a chain below the root `r`: after some picks (`mid`) the task `c` is handed out while it lies
below `r` in the graph of that moment, then the run continues along the chain below `c`. -/
inductive SkipChain (Y : YieldFn) (F : BodyFn) : Nat → Prov.Sess → List (List Nat × Nat) → Prov.Sess → Prop
  | nil (r : Nat) (s : Prov.Sess) : SkipChain Y F r s [] s
  | cons (r : Nat) (s sm s' : Prov.Sess) (mid : List Nat) (c : Nat) (rest : List (List Nat × Nat)) :
      loop Y F s mid = .ok sm → loop Y F sm [c] = .ok (stepOf Y F sm c) → c ∈ taskDesc sm.g r →
      (setupProvisional { sm with so := sm.so.take [tv c] } c).stop = false →
      SkipChain Y F c (stepOf Y F sm c) rest s' → SkipChain Y F r s ((mid, c) :: rest) s'

theorem skipChain_aux (Y : YieldFn) (F : BodyFn) (ts : List PTask) (w : World) (s0 : Prov.Sess) (h0 : initSess ts w = some s0) :
    ∀ (segs : List (List Nat × Nat)) (r : Nat) (s s' : Prov.Sess) (pre : List Nat), loop Y F s0 pre = .ok s →
      BadReported [r] s → BelowRoots [r] s → SkipChain Y F r s segs s' →
      ∀ c ∈ segs.map (·.2), (c, Outcome.skipPrevFailed) ∈ s'.reports := by
  intro segs
  induction segs with
  | nil => intro r s s' pre _ _ _ _ c hc; cases hc
  | cons seg rest ih =>
    intro r s s' pre hpre hr hbr hch c hc
    cases hch with
    | cons _ _ sm _ mid c1 _ hl1 hl2 hlink hre hrest =>
      have hpre' : loop Y F s0 (pre ++ mid) = .ok sm := loop_append_ok pre mid s0 s sm hpre hl1
      obtain ⟨hr', hbr'⟩ := loop_belowRoots [r] mid s sm hl1 hr hbr
      obtain ⟨_, hrep, hbc, hbbc, _, _⟩ := C18_failed_ancestor_skips_step Y F ts w s0 sm (pre ++ mid) c1 h0 hpre' hl2 r hr' hbr' hlink hre
      have hpre'' : loop Y F s0 ((pre ++ mid) ++ [c1]) = .ok (stepOf Y F sm c1) := loop_append_ok _ _ s0 sm _ hpre' hl2
      simp only [List.map_cons, List.mem_cons] at hc
      rcases hc with rfl | hc
      · -- the report of `c` stays in the list
        have hin : (c, Outcome.skipPrevFailed) ∈ (stepOf Y F sm c).reports := by rw [hrep]; simp
        clear ih
        -- reports only grow along the rest of the chain
        have mono : ∀ (segs : List (List Nat × Nat)) (r : Nat) (a b : Prov.Sess), SkipChain Y F r a segs b →
            ∀ x ∈ a.reports, x ∈ b.reports := by
          intro segs
          induction segs with
          | nil => intro r a b h x hx; cases h; exact hx
          | cons sg rs ih2 =>
            intro r a b h x hx
            cases h with
            | cons _ _ sm2 _ mid2 c2 _ g1 g2 _ _ g5 =>
              exact ih2 c2 _ b g5 x ((loop_mono [c2] sm2 _ g2).1 x ((loop_mono mid2 a sm2 g1).1 x hx))
        exact mono rest c _ s' hrest _ hin
      · exact ih c1 (stepOf Y F sm c1) s' _ hpre'' hbc hbbc hrest c hc

/-- **C18_failed_ancestor_skips_full** (proved since 501f7e1; refuted before — finding F42). A build reports `f` FAIL. Along
any chain `f = c₀, c₁, …, c_k` in which every `c_{i+1}` is handed out at a moment when it lies below `c_i` in the graph
(`SkipChain`: e.g. `c_{i+1}` declares a product of `c_i` as a dependency — `C18_declared_link` —, whether it was collected,
or created by a generator, or linked through a pattern only later), **none** of `c₁ … c_k` is executed: every one is reported
SKIP_PREVIOUS_FAILED (and by `C18_failed_ancestor_skips_step` its function is not called) — although each skipped task's own
pattern dependencies are resolved all the same, which cuts its connection to the failed task in the re-created DAG. -/
theorem C18_failed_ancestor_skips_full (Y : YieldFn) (F : BodyFn) (ts : List PTask) (w : World) (s0 s s' : Prov.Sess) (pre : List Nat)
    (h0 : initSess ts w = some s0) (h1 : loop Y F s0 pre = .ok s) (f : Nat) (hf : (f, Outcome.fail) ∈ s.reports)
    (segs : List (List Nat × Nat)) (hc : SkipChain Y F f s segs s') :
    ∀ c ∈ segs.map (·.2), (c, Outcome.skipPrevFailed) ∈ s'.reports :=
  skipChain_aux Y F ts w s0 h0 segs f s s' pre h1
    (fun x hx => Or.inl (by
      have hxf : x = f := by simpa using hx
      rw [hxf]; exact hf))
    (C18_failed_root Y F ts w s0 s pre h0 h1 f hf) hc

/-! The F42 witness: 1 produces the pattern and raises; 2 consumes the pattern (its product 101 is left over); generator 5
defines 6, which depends on 101. Order 1, 2, 5, 6. -/
def f38Pat : Pat := ⟨500000, 1000, 5⟩
def f38Ts : List PTask := [{ id := 1, src := 9000, pprods := [⟨f38Pat, none⟩], fails := true },
                           { id := 2, src := 9000, deps := [100], pdeps := [⟨f38Pat, none⟩], prods := [101] },
                           { id := 5, src := 9000, gen := true }]
def f38Kid : PTask := { id := 6, src := 9000, deps := [101], prods := [106] }
def f38Y : YieldFn := fun g _ => if g == 5 then [f38Kid] else []
def f38W : World := ⟨[(9000, 1), (100, 12), (101, 5)], []⟩
def f38S0 : Prov.Sess := (initSess f38Ts f38W).getD exDummy
def f38Sm : Prov.Sess := match loop f38Y f11F f38S0 [1, 2, 5] with | .ok s => s | .error _ => exDummy
def f38S' : Prov.Sess := match loop f38Y f11F f38Sm [6] with | .ok s => s | .error _ => exDummy

set_option maxRecDepth 8000 in
/-- The former F42 witness (refuted the clause before 501f7e1): 1 FAIL, 2 SKIP_PREVIOUS_FAILED, the generator defines 6 below
2 — and 6 is now skipped: its function is not called. -/
example : f38Sm.reports = [(1, Outcome.fail), (2, Outcome.skipPrevFailed), (5, Outcome.success)] ∧
    (stepOf f38Y f11F f38Sm 6).log = f38Sm.log ∧
    (stepOf f38Y f11F f38Sm 6).reports = f38Sm.reports ++ [(6, Outcome.skipPrevFailed)] := by decide +kernel

/-! Non-vacuity of `C18_failed_ancestor_skips_full` on the former F42 witness: 1 FAIL; chain 1 → 2 (pattern) → 6 (product of 2,
defined by generator 5 after 2 was skipped). -/
def f38Sa : Prov.Sess := match loop f38Y f11F f38S0 [1] with | .ok s => s | .error _ => exDummy
def f38S2 : Prov.Sess := stepOf f38Y f11F f38Sa 2
def f38S5 : Prov.Sess := match loop f38Y f11F f38S2 [5] with | .ok s => s | .error _ => exDummy

set_option maxRecDepth 8000 in
example : (2, Outcome.skipPrevFailed) ∈ (stepOf f38Y f11F f38S5 6).reports ∧ (6, Outcome.skipPrevFailed) ∈ (stepOf f38Y f11F f38S5 6).reports := by
  have hch : SkipChain f38Y f11F 1 f38Sa [([], 2), ([5], 6)] (stepOf f38Y f11F f38S5 6) :=
    SkipChain.cons 1 f38Sa f38Sa _ [] 2 _ (by rfl) (loop_one (by decide +kernel)) (by decide +kernel) (by decide +kernel)
      (SkipChain.cons 2 f38S2 f38S5 _ [5] 6 _ (by rfl) (loop_one (by decide +kernel)) (by decide +kernel) (by decide +kernel)
        (SkipChain.nil 6 _))
  have := C18_failed_ancestor_skips_full f38Y f11F f38Ts f38W f38S0 f38Sa _ [1] (by rfl) (by rfl) 1 (by decide +kernel) _ hch
  exact ⟨this 2 (by simp), this 6 (by simp)⟩

end Pytask
