import PytaskProofs.Lemmas.Provisional
/-!
# C18 — directory patterns resolve when the consumer starts; generated tasks run in the same build

Model M7 (`PytaskModel/Provisional.lean`): `provisional.py`, `provisional_utils.py`, `DirectoryNode`, the protocol of
`execute.py`, `from_dag_and_sorter`. `Y` (what generator bodies define) and `F` (what bodies write) are arbitrary.
A build is `initSess ts w = some s₀` followed by `loop Y F s₀ picks = .ok s'` for the observed pick order; every
theorem holds for every pick order the loop accepts (= every legal schedule of the sequential executor).
-/
namespace Pytask
open Sorter Prov
open Engine (lookup taskAnc taskDesc tv nv isTaskV hasChanged stateOf neighbours)

/-- `DirectoryNode.collect`: the pattern (an interval of file ids) matches exactly the files of the interval that exist. -/
theorem C18_glob (π : Pat) (fs : FS) (n : Nat) :
    n ∈ π.glob fs ↔ π.lo ≤ n ∧ n < π.lo + π.len ∧ (lookup fs n).isSome = true := mem_glob

/-- **C18_resolve.** For every session state `s` and every task `t` whose directory-pattern dependencies are still
unresolved: every time the protocol of `t` calls the task function, each pattern argument is exactly the list of files
matching the pattern in the world in which the protocol of `t` started (`s.w.fs`), and that is also what the body's own
glob sees (nothing between the resolution in `setup` and the call changes the file system). -/
theorem C18_resolve (Y : YieldFn) (F : BodyFn) (s : Sess) (t : Nat) (tk : PTask) (hf : findTask s.tasks t = some tk)
    (hun : ∀ sl ∈ tk.pdeps, sl.res = none) (e : Recv) (he : e ∈ (protocol Y F s t).recv) :
    e ∈ s.recv ∨ (e.task = t ∧ e.got = tk.pdeps.map (fun sl => sl.pat.glob s.w.fs) ∧ e.seen = e.got) := by
  have hgot : received (resolvedDeps s.w.fs tk) = tk.pdeps.map (fun sl => sl.pat.glob s.w.fs) := by
    rw [received_resolvedDeps]
    apply List.map_congr_left
    intro sl hsl; rw [hun sl hsl]; rfl
  rcases protocol_obs Y F s t tk hf with h | h
  · left; rw [h.2.1] at he; exact he
  · rw [h.2.1] at he
    rcases List.mem_append.1 he with he | he
    · exact Or.inl he
    · right
      simp only [List.mem_singleton] at he
      subst he
      exact ⟨rfl, hgot, by simp only [seenBy_resolvedDeps, hgot]⟩

/-- **C18_order.** In a build that started with the tasks `ts`, when the loop hands out task `t` in state `sm` (reached
after the picks `pre`), every task-ancestor of `t` in the graph *current at that moment* (re-created whenever a pattern
was resolved or a generator defined tasks) has already completed its protocol. -/
theorem C18_order (Y : YieldFn) (F : BodyFn) (ts : List PTask) (w : World) (s0 sm s' : Sess) (pre : List Nat) (t : Nat)
    (post : List Nat) (h0 : initSess ts w = some s0) (h1 : loop Y F s0 pre = .ok sm) (h2 : loop Y F sm (t :: post) = .ok s')
    (a : Nat) (ha : a ∈ taskAnc sm.g t) : a ∈ pre := by
  have hi : LInv ts sm ([] ++ pre) := loop_inv pre s0 sm [] (initSess_inv h0) h1
  obtain ⟨hs, _, hl, hf, _⟩ := loop_cons h2
  simpa using pick_order hi hs hl hf a ha

/-- **C18_once / C18_gen_once.** In one build no task is handed out twice and no task function — generators and
generated tasks included — is called more than once. For generators this rests on the extracted facts that
`pytask_execute_task` is a `firstresult` hook, that `provisional` comes before `execute` in its call order and that the
generator implementation returns a result (`Generated.executeOrder`, `executeOrderFirstResult`,
`provisionalGeneratorResult`, consumed by `execChain_eval`): with the pre-8626c87 code the proof does not go through. -/
theorem C18_gen_once (Y : YieldFn) (F : BodyFn) (ts : List PTask) (w : World) (s0 s' : Sess) (picks : List Nat)
    (h0 : initSess ts w = some s0) (h1 : loop Y F s0 picks = .ok s') (t : Nat) :
    picks.count t ≤ 1 ∧ s'.log.count t ≤ 1 := by
  have hnd : picks.Nodup := by simpa using loop_nodup picks s0 s' [] (initSess_inv h0) List.nodup_nil h1
  obtain ⟨l, hl1, hl2⟩ := loop_log picks s0 s' h1
  have hs0 : s0.log = [] := by
    unfold initSess at h0
    split at h0
    · cases h0
    · split at h0
      · cases h0
      · cases h0; rfl
  rw [hl2, hs0, List.nil_append]
  exact ⟨List.nodup_iff_count.1 hnd t, List.nodup_iff_count.1 (hnd.sublist hl1) t⟩

end Pytask
