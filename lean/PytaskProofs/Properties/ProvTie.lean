-- TIE-PROPS: C18
-- TIE-SECTION: extract_provgen
import PytaskModel.ProvGen
import PytaskProofs.Lemmas.EngineGenRefines
/-!
# ProvTie — the hand-written model M7 equals what is computed from the source

`Provisional.lean` (the model under the theorems of C18) writes out by hand what `provisional.py`, `provisional_utils.py`
and `DirectoryNode` do. `harness/extract_provgen.py` reads the same from the tree under check into `Generated.Prv.*`;
`ProvGen.lean` interprets that data. The theorems below say that, **for all arguments**, the interpreters return what
the hand-written step functions return. Their proofs unfold the generated terms, so a source change that alters an
extracted fact (the DAG re-created under another condition or not at all, products resolved for generators too, the
task no longer registered, another attribute resolved, a dropped `return True`, the new scheduler built from something
else, a handler that no longer stops the build, another glob, another signature key, a generator guard without the
SUCCESS test …) makes this module fail to compile: the check reports PROOF-BROKEN for C18.
-/
namespace Pytask
open Prov ProvGen Generated.Prv
open Engine (createDag isTaskV lookup tv nv stateOf hasChanged Scan Raised)

/-- `DirectoryNode.collect` is the model's glob. -/
theorem ProvTie_glob (π : Pat) (fs : FS) : globGen dirCollect π fs = π.glob fs := rfl

/-- `DirectoryNode.signature` hashes exactly (root_dir, pattern): two nodes with the same root_dir and pattern are one graph
node whatever their `name` (the model identifies a pattern with `Pat.node`), and different pairs differ (given `sha_inj`). -/
theorem ProvTie_signature (d : DirDecl) : sigGen d = [some d.rootDir, some d.pattern] := by
  simp [sigGen, Generated.sigDirNodeFields, DirDecl.field]

/-- `collect_provisional_nodes` on one leaf: a non-provisional leaf is returned as it is and registers nothing; a
provisional one registers the task and is replaced by what `collect()` returns. -/
theorem ProvTie_slot (fs : FS) (sl : Slot) : slotGen fs sl = (Slot.resolve fs sl, sl.res.isNone) := by
  unfold slotGen Slot.resolve
  simp only [nodeSteps, slotRun]
  cases h : sl.res <;> simp [globGen, dirCollect]

/-- `recreate_dag`: `session.dag = create_dag_from_session(session)`, then the scheduler from the new DAG and the running
scheduler; the `skip_ancestor_failed` marks are renewed below the reports with the extracted outcomes — FAIL and, since 501f7e1,
SKIP_PREVIOUS_FAILED —; on an exception a FAIL report for the task is appended and `should_stop` is set (the already assigned
DAG stays). -/
theorem ProvTie_recreate (s : Prov.Sess) (t : Nat) : recreateGen s t = recreate s t := by
  unfold recreateGen recreate
  simp only [recreateTry, tryRun, recreateCatches, recreateHandler]
  cases h1 : createDag (toProject s.tasks) {} with
  | error e => simp [handlerRun]
  | ok gm =>
    obtain ⟨g, m⟩ := gm
    simp only []
    cases h2 : Sorter.fromDagAndSorter g isTaskV prio0 s.so with
    | error e => simp [handlerRun, renewFailMarks, rootOutcome, renewMarks]
    | ok so => simp [renewFailMarks, rootOutcome, renewMarks]

theorem slots_resolve (fs : FS) (slots : List Slot) :
    (slots.map (slotGen fs)).map (·.1) = slots.map (Slot.resolve fs) ∧
    (slots.map (slotGen fs)).any (·.2) = unresolved slots := by
  unfold unresolved
  induction slots with
  | nil => exact ⟨rfl, rfl⟩
  | cons x xs ih => simp only [List.map_cons, List.any_cons, ProvTie_slot, ih.1, ih.2]; simp

/-- `provisional.pytask_execute_task_setup`: resolve the provisional dependencies, then re-create the DAG iff the task is
registered in `TASKS_WITH_PROVISIONAL_NODES`. -/
theorem ProvTie_setup (s : Prov.Sess) (t : Nat) (hf : (findTask s.tasks t).isSome) :
    setupProvisionalGen s t = setupProvisional s t := by
  unfold setupProvisionalGen setupProvisional
  simp only [setupSteps, hookRun, resolveGen, condGen, ProvTie_recreate]
  cases h : findTask s.tasks t with
  | none => rw [h] at hf; cases hf
  | some tk =>
    simp only [(slots_resolve s.w.fs tk.pdeps).1, (slots_resolve s.w.fs tk.pdeps).2]

/-- `collect_provisional_products`: nothing for generators; else resolve the provisional products, then re-create the DAG
iff the task is registered. -/
theorem ProvTie_products (s : Prov.Sess) (t : Nat) (hf : (findTask s.tasks t).isSome) :
    collectProductsGen s t = collectProducts s t := by
  unfold collectProductsGen collectProducts
  simp only [productsSteps, hookRun, resolveGen, condGen, ProvTie_recreate, isGen]
  cases h : findTask s.tasks t with
  | none => rw [h] at hf; cases hf
  | some tk =>
    simp only [(slots_resolve s.w.fs tk.pprods).1, (slots_resolve s.w.fs tk.pprods).2]

/-- `provisional.pytask_execute_task`: for a generator — load the kwargs, call it, fail if it defined nothing, collect what
it defined, raise the first collection error if one of them cannot be collected (f1fcb9a), raise if one has the name of an existing or another defined task (6571c4f), extend `session.tasks`, re-create the DAG unconditionally, return a result; nothing for other tasks. Session and
raised flag agree with the model's `execImpl … "provisional"` for all arguments; so does the returned result whenever
nothing was raised. -/
theorem ProvTie_generator (Y : YieldFn) (F : BodyFn) (s : Prov.Sess) (t : Nat) :
    (execProvGen Y s t).1 = (execImpl Y F s t "provisional").1 ∧
    (execProvGen Y s t).2.1 = (execImpl Y F s t "provisional").2.1 ∧
    ((execImpl Y F s t "provisional").2.1 = false → (execProvGen Y s t).2.2 = (execImpl Y F s t "provisional").2.2) := by
  unfold execProvGen execImpl
  cases h : findTask s.tasks t with
  | none => simp
  | some tk =>
    by_cases hg : tk.gen = true
    · simp only [hg, if_true, String.reduceBEq, genSteps, genRun, condGen, ProvTie_recreate, genExecute,
        Generated.provisionalGeneratorResult]
      by_cases hfl : tk.fails = true
      · simp [hfl]
      · simp only [hfl, Bool.false_eq_true, if_false]
        by_cases hk : (Y tk.id (received tk)).isEmpty = true
        · simp [hk]
        · by_cases hu : (Y tk.id (received tk)).any (·.uncollectable) = true
          · simp [hk, hu]
          · by_cases hc : nameClash s.tasks (Y tk.id (received tk)) = true
            · simp [hk, hu, hc, invoke]
            · simp [hk, hu, hc, invoke]
    · simp [hg, genElseReturns]

/-- The generator implementation of the `firstresult` hook `pytask_execute_task` returns a result whenever it does not
raise — so pluggy stops before the default implementation of execute.py, which would call the generator a second time
(8626c87) — and returns none for other tasks. -/
theorem ProvTie_generator_result (Y : YieldFn) (s : Prov.Sess) (t : Nat) (tk : PTask) (hf : findTask s.tasks t = some tk)
    (hnr : (execProvGen Y s t).2.1 = false) : (execProvGen Y s t).2.2 = tk.gen := by
  unfold execProvGen at hnr ⊢
  rw [hf] at hnr ⊢
  by_cases hg : tk.gen = true
  · simp only [hg, if_true, genSteps, genRun, condGen] at hnr ⊢
    by_cases hfl : tk.fails = true
    · simp [hfl] at hnr
    · simp only [hfl, Bool.false_eq_true, if_false] at hnr ⊢
      by_cases hk : (Y tk.id (received tk)).isEmpty = true
      · simp [hk] at hnr
      · by_cases hu : (Y tk.id (received tk)).any (·.uncollectable) = true
        · simp [hk, hu] at hnr
        · by_cases hc : nameClash s.tasks (Y tk.id (received tk)) = true
          · simp [hk, hu, hc, invoke] at hnr
          · simp [hk, hu, hc, invoke]
  · simp [hg, genElseReturns]

/-- `provisional.pytask_execute_task_process_report` (arms from extract_engine): only a generator whose report is still
SUCCESS ends the chain — no states are recorded for it; a failed generator goes on to the default handler. -/
theorem ProvTie_report (s : Prov.Sess) (t : Nat) (r : Raised) :
    provReportGen s t r = some (reportImpl s t r "provisional") := by
  unfold provReportGen reportImpl
  simp only [Generated.Eng.reportImpls, List.find?, String.reduceBEq, armsRun, rtestGen, Generated.provisionalReportKeepsStates,
    Bool.and_true, Bool.false_eq_true, if_false, if_true]
  cases r <;> cases hg : isGen s.tasks t <;> simp [hg] <;> rfl

/-- The loop of `execute.pytask_execute_task_setup` (steps from extract_engine), run with the model's notion of "this graph
node is a provisional node", is the model's `scanP` — including the `continue` for provisional products — for every node
list and flag. -/
theorem ProvTie_scan (P : Project) (g : G) (w : World) (pn : List Nat) (t : Nat) :
    ∃ i gd ps ls, EngineGen.execScan = some (i, gd, ps, ls) ∧
      ∀ (vs : List Nat) (needs : Bool),
        (EngineGen.scanGen P g w t ps ls (isProv pn) needs vs).toScan = scanP P g w pn t needs vs := by
  obtain ⟨⟨i, gd, ps, ls⟩, h⟩ := Option.isSome_iff_exists.1 EngineGen.execScan_isSome
  refine ⟨i, gd, ps, ls, h, ?_⟩
  simp only [EngineGen.execScan, Generated.Eng.setupImpls, List.find?] at h
  simp at h
  obtain ⟨-, -, rfl, rfl⟩ := h
  intro vs
  induction vs with
  | nil => intro needs; cases needs <;> rfl
  | cons v vs ih =>
    intro needs
    unfold EngineGen.scanGen scanP
    simp only [EngineGen.hasChangedGen_eq, EngineGen.inPredSet, EngineGen.part, List.any_cons, List.any_nil, List.contains_cons,
      List.contains_nil, Bool.or_false, EngineGen.runSteps, EngineGen.evalL, EngineGen.runActs]
    cases needs <;> cases hp : (g.preds (tv t)).contains v <;> cases hs : (v == tv t) <;> cases hpv : isProv pn v <;>
      cases hst : stateOf P w v <;> simp [ih]
    all_goals (generalize hasChanged w t v _ = c; cases c <;> simp [ih])

/-- `_is_condition_true` (the re-creation of the DAG: which tasks "are going to be skipped") reads the condition of a `skipif` mark
as the regular skip logic of skipping.py does, for every shape of the mark the latter accepts: one positional argument
(`skipif(False, reason=…)`, `skipif(0, …)`) or the keyword (`skipif(condition=False, …)`). A mark whose condition is false is
false for both, so its task and the descendants of its task are not marked to be skipped. -/
theorem ProvTie_skipif (m : SMark) (b : Bool) (h : skipifBind skipifParam m = some b) :
    condEval skipifReadRecreate m = some b := by
  obtain ⟨args, kw⟩ := m
  simp only [skipifBind, skipifParam] at h
  simp only [skipifReadRecreate, condEval]
  match args, hk : kwLookup "condition" kw, h with
  | [a], none, h => simpa using h
  | [], some v, h => simpa [hk] using h

/-- The element of the tuple `skipif(…)` returns that the setup hook looks at is the condition; several marks are combined in the
same way on both sides (any). -/
theorem ProvTie_skipif_combine :
    skipifTupleIndex = skipifReadIndex ∧ skipifCombineRecreate = skipifCombineSetup ∧ skipifCombineSetup = "any" := by decide

/-- Several `skipif` marks on one task: if the regular logic can evaluate all of them, the re-creation of the DAG takes the task as
"going to be skipped" exactly when the regular logic skips it; in particular not when every condition is false. -/
theorem ProvTie_skipif_marks (ms : List SMark) (bs : List Bool) (h : ms.map (skipifBind skipifParam) = bs.map some) :
    ms.map (condEval skipifReadRecreate) = bs.map some := by
  induction ms generalizing bs with
  | nil => cases bs <;> simp_all
  | cons m ms ih =>
    cases bs with
    | nil => simp at h
    | cons b bs =>
      simp only [List.map_cons, List.cons.injEq] at h ⊢
      exact ⟨ProvTie_skipif m b h.1, ih bs h.2⟩

/-- `pytask_collect_node` joins a relative `root_dir` to the directory of the task's module and normalises the RESULT (an absolute
one is normalised): the node's root_dir — the first signature field, `ProvTie_signature` — is the directory the declaration denotes. -/
theorem ProvTie_rootdir (d : List Comp) (p : RPath) : rootDirGen d p = rootDirRef d p := by
  obtain ⟨a, cs⟩ := p
  cases a <;> simp [rootDirGen, rootDirRef, rootRun, rootStep, RPath.norm, rootDirRelative, rootDirAbsolute]

/-- Two declarations that denote one directory — from modules in different directories, absolute or relative, with `./` or `..` —
get the same root_dir, hence (same pattern) the same signature: producer and consumer share one node. -/
theorem ProvTie_rootdir_same (d₁ d₂ : List Comp) (p₁ p₂ : RPath) (h : rootDirRef d₁ p₁ = rootDirRef d₂ p₂) :
    rootDirGen d₁ p₁ = rootDirGen d₂ p₂ := by
  rw [ProvTie_rootdir, ProvTie_rootdir, h]

/-- `/proj/sub` + `../out`, `/proj` + `out`, `/proj` + `./out`, `/proj` + `x/../out` and the absolute `/proj/out`. -/
example : rootDirGen [.name 0, .name 1] ⟨false, [.up, .name 2]⟩ = rootDirGen [.name 0] ⟨false, [.name 2]⟩
    ∧ rootDirGen [.name 0] ⟨false, [.dot, .name 2]⟩ = rootDirGen [.name 0] ⟨false, [.name 2]⟩
    ∧ rootDirGen [.name 0] ⟨false, [.name 3, .up, .name 2]⟩ = rootDirGen [.name 0] ⟨true, [.name 0, .name 2]⟩
    ∧ rootDirGen [.name 0, .name 1] ⟨false, [.up, .name 2]⟩ = ⟨true, [.name 0, .name 2]⟩ := by decide

end Pytask
