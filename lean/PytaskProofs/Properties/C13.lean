import PytaskProofs.Lemmas.Collect
/-!
# C13 — every declared task is collected exactly once under a unique id

Property theorems only (model: `PytaskModel/Collect.lean`, M9a). `_full` statements that are false of the
current code are kept as `def … : Prop` with a proved negation (finding F12) next to the strongest true
weakening (`_partial`). F8a and F8b were repaired (fix commits 2ddbdf4, faa5f38): `C13_ids_total_full` and
`C13_cross_hook_full` are proved at full strength over the model of the fixed code.
-/
namespace Pytask
namespace Collect

/-! ## The walk: every non-ignored file once, whatever paths are given -/

/-- **C13_walk_once.** For any list of configured paths — overlapping, repeated, files and directories —
`_not_ignored_paths` yields every file at most once, and yields exactly the files that are reachable
from some given path through non-ignored directories and are not ignored themselves. -/
theorem C13_walk_once (fs : FS) (ign : Path → Bool) (paths : List Path) :
    (notIgnoredPaths fs ign paths).Nodup ∧
    ∀ p, p ∈ notIgnoredPaths fs ign paths ↔ ∃ r ∈ paths, reachFrom fs ign r p := by
  have := foldl_walkPath_spec fs ign paths [] List.nodup_nil
  refine ⟨this.1, fun p => ?_⟩
  have h := this.2 p
  simpa [notIgnoredPaths] using h

/-- Repeating a path, or adding a path below one that is already given, changes nothing about *which*
files are collected. -/
theorem C13_walk_repeat (fs : FS) (ign : Path → Bool) (paths : List Path) (r : Path) (hr : r ∈ paths) (p : Path) :
    p ∈ notIgnoredPaths fs ign (paths ++ [r]) ↔ p ∈ notIgnoredPaths fs ign paths := by
  rw [(C13_walk_once fs ign _).2, (C13_walk_once fs ign _).2]
  constructor
  · rintro ⟨r', hr', h⟩
    rcases List.mem_append.1 hr' with h' | h'
    · exact ⟨r', h', h⟩
    · simp at h'; subst h'; exact ⟨r', hr, h⟩
  · rintro ⟨r', hr', h⟩
    exact ⟨r', List.mem_append.2 (Or.inl hr'), h⟩

/-! ## Which files are task modules -/

/-- **C13_task_files_match.** Both `pytask_collect_file` implementations decide with the same predicate — `path.match`,
i.e. right-anchored, component-wise fnmatch — so a path is a task module iff some `task_files` pattern matches its
trailing components; a pattern with a directory part (`tasks/*.py`, `sub/*/t_*.py`) is not compared with the file name
alone. -/
theorem C13_task_files_match (c : Cfg) (p : Path) :
    c.isTaskFile p = (c.taskFiles.map parsePat).any (fun pat => pat.matches p) := by
  unfold Cfg.isTaskFile Cfg.isTaskFileFor
  simp [Generated.Col.taskFilesPredicates, matchBy]

/-- a relative pattern of `k` components looks at exactly the last `k` components of the path. -/
theorem C13_pattern_trailing (pat : Pat) (pre p : Path) (hrel : pat.abs = false) (hne : pat.comps ≠ [])
    (hlen : pat.comps.length = p.length) : pat.matches (pre ++ p) = compsMatch pat.comps p := by
  unfold Pat.matches
  have h1 : pat.comps.isEmpty = false := by cases h : pat.comps with | nil => exact absurd h hne | cons _ _ => rfl
  have h2 : pat.comps.length ≤ (pre ++ p).length := by simp [hlen]
  have h3 : (pre ++ p).drop ((pre ++ p).length - pat.comps.length) = p := by
    have : (pre ++ p).length - pat.comps.length = pre.length := by simp [hlen]
    rw [this, List.drop_left]
  simp only [h1, hrel, Bool.false_eq_true, ↓reduceIte, h3, decide_eq_true h2, Bool.true_and]

example : (parsePat "tasks/*.py").matches ["r", "p", "tasks", "build_a.py"] = true ∧
    (parsePat "tasks/*.py").matches ["r", "p", "other", "build_a.py"] = false ∧
    (parsePat "sub/*/t_*.py").matches ["r", "sub", "x", "t_1.py"] = true ∧
    (parsePat "TASK_*.py").matches ["r", "task_a.py"] = false := by decide

/-! ## Shortest unique display names -/

/-- **C13_short_names_inj.** `_find_shortest_uniquely_identifiable_name_for_tasks` never gives two
different tasks (different `(path, base_name)`) the same shortened name, for any number of rounds
`range(lo, hi)`. -/
theorem C13_short_names_inj (keys : List TKey) (e1 e2 : TKey × TKey)
    (h1 : e1 ∈ shortNames keys) (h2 : e2 ∈ shortNames keys) (hne : e1.1 ≠ e2.1) : e1.2 ≠ e2.2 := by
  unfold shortNames shortRounds at h1 h2
  have inv := foldl_roundStep_inv (Generated.shortNameHi - Generated.shortNameLo) Generated.shortNameLo
    ([], dedupK keys) 0 (Nat.zero_le _) ⟨by simp, by simp, by simp⟩
  generalize (List.range' Generated.shortNameLo (Generated.shortNameHi - Generated.shortNameLo)).foldl roundStep ([], dedupK keys) = r at h1 h2 inv
  rcases List.mem_append.1 h1 with h1 | h1 <;> rcases List.mem_append.1 h2 with h2 | h2
  · exact inv.inj e1 h1 e2 h2 hne
  · obtain ⟨k, hk, rfl⟩ := List.mem_map.1 h2
    obtain ⟨n0, _, hs, hrem⟩ := inv.fixed e1 h1
    have := full_ne_shortOf k e1.1 n0 (by rw [← hs]; exact hrem k hk)
    intro heq; apply this; simp only at heq; rw [← heq, hs]
  · obtain ⟨k, hk, rfl⟩ := List.mem_map.1 h1
    obtain ⟨n0, _, hs, hrem⟩ := inv.fixed e2 h2
    have := full_ne_shortOf k e2.1 n0 (by rw [← hs]; exact hrem k hk)
    intro heq; apply this; simp only at heq; rw [heq, hs]
  · obtain ⟨k1, _, rfl⟩ := List.mem_map.1 h1
    obtain ⟨k2, _, rfl⟩ := List.mem_map.1 h2
    intro heq
    apply hne
    simp only [Prod.mk.injEq, List.cons.injEq, true_and] at heq
    exact Prod.ext heq.1 heq.2

/-- Every task gets a shortened name (none is lost by the renaming). -/
theorem C13_short_names_total (keys : List TKey) (k : TKey) (hk : k ∈ keys) :
    ∃ s, (k, s) ∈ shortNames keys := by
  unfold shortNames
  have := (foldl_roundStep_keys shortRounds ([], dedupK keys) k).2 (Or.inr ((mem_dedupK keys k).2 hk))
  rcases this with h | h
  · obtain ⟨e, he, rfl⟩ := List.mem_map.1 h
    exact ⟨e.2, List.mem_append.2 (Or.inl he)⟩
  · exact ⟨_, List.mem_append.2 (Or.inr (List.mem_map.2 ⟨k, h, rfl⟩))⟩

/-- Non-vacuity: the same stem in three directories needs one, two and three path components. -/
example : shortNames [(["t", "a", "task_x.py"], "task_x"), (["t", "b", "task_x.py"], "task_x"), (["t", "task_y.py"], "task_x")]
    = [((["t", "task_y.py"], "task_x"), (["task_y.py"], "task_x")),
       ((["t", "a", "task_x.py"], "task_x"), (["a", "task_x.py"], "task_x")),
       ((["t", "b", "task_x.py"], "task_x"), (["b", "task_x.py"], "task_x"))] := by decide

/-! ## Names and ids of `@task` functions -/

/-- the `(preliminary name, function)` pairs of `_parse_tasks_with_preliminary_names`. -/
def parsedOf (w : World) (tasks : List ObjId) : List (String × ObjId) := tasks.map (fun o => (metaNameOf w o, o))

/-- **C13_ids_sound.** Whatever `parse_collected_tasks_with_task_marker` returns has pairwise distinct
names, and every entry is one of the registered functions (nothing is invented, nothing is merged under
one key). -/
theorem C13_ids_sound (enum : List String → List String) (w : World) (tasks : List ObjId) (d : Dict)
    (h : parseCollected enum w tasks = some d) : (d.map Prod.fst).Nodup ∧ ∀ e ∈ d, e.2 ∈ tasks := by
  unfold parseCollected at h
  obtain ⟨h1, h2⟩ := foldl_parseStep_sound w _ _ [] d h (by simp)
  refine ⟨h1, fun e he => ?_⟩
  rcases h2 e he with h3 | h3
  · simp at h3
  · simpa [List.map_map, Function.comp] using h3

def f8aFn (name : String) (tag : Nat) : FnObj :=
  { file := ["r", "task_m.py"], fname := "_", params := [], defaults := [], tag := tag, marked := true,
    metaName := name, metaId := none, metaKwargs := [] }

/-- **C13_ids_total_full** (the property at full strength for one module's `@task` functions, true since
fix 2ddbdf4): for every iteration order of the set `all_names`, if the decorated functions of a module
are parsed without error, every registered function is in the result — none is dropped or overwritten. -/
theorem C13_ids_total_full (enum : List String → List String) (w : World) (tasks : List ObjId) (d : Dict)
    (hperm : ∀ l, (enum l).Perm l) (h : parseCollected enum w tasks = some d) :
    ∀ o ∈ tasks, ∃ k, (k, o) ∈ d := by
  intro o ho
  unfold parseCollected at h
  have hp := hperm (dedup ((parsedOf w tasks).map (·.1)))
  obtain ⟨_, h2⟩ := foldl_parseStep_complete w (parsedOf w tasks) _ [] d h
  have hn : metaNameOf w o ∈ enum (dedup ((parsedOf w tasks).map (·.1))) := by
    apply hp.mem_iff.2
    apply (mem_dedup _ _).2
    exact List.mem_map.2 ⟨(metaNameOf w o, o), List.mem_map.2 ⟨o, ho, rfl⟩, rfl⟩
  obtain ⟨c, hc, hcd⟩ := h2 _ hn
  have hs := (contribution_spec w _ _ c hc).2
  have : o ∈ c.map Prod.snd := by
    rw [hs]
    exact List.mem_map.2 ⟨(metaNameOf w o, o), List.mem_filter.2 ⟨List.mem_map.2 ⟨o, ho, rfl⟩, by simp⟩, rfl⟩
  obtain ⟨e, he, heo⟩ := List.mem_map.1 this
  exact ⟨e.1, by have := hcd e he; rw [← heo]; exact this⟩

/-- **C13_id_clash_fails** (the repair of F8a). If the ids of two different name groups coincide — the
generated id `f[0]` of a repeated name and an explicit name `f[0]`, or two generated ids — parsing fails
(`ValueError` → failed collection report → exit code 3) in whatever order the names are visited. -/
theorem C13_id_clash_fails (enum : List String → List String) (w : World) (tasks : List ObjId) (hperm : ∀ l, (enum l).Perm l)
    (n1 n2 : String) (c1 c2 : Dict) (k : String) (hne : n1 ≠ n2)
    (hc1 : contribution w (parsedOf w tasks) n1 = some c1) (hc2 : contribution w (parsedOf w tasks) n2 = some c2)
    (hk1 : k ∈ c1.map Prod.fst) (hk2 : k ∈ c2.map Prod.fst) : parseCollected enum w tasks = none := by
  have mem : ∀ n c, contribution w (parsedOf w tasks) n = some c → k ∈ c.map Prod.fst →
      n ∈ enum (dedup ((parsedOf w tasks).map (·.1))) := by
    intro n c hc hk
    apply (hperm _).mem_iff.2
    apply (mem_dedup _ _).2
    obtain ⟨e, he, _⟩ := List.mem_map.1 hk
    have hs := (contribution_spec w _ _ c hc).2
    have : e.2 ∈ c.map Prod.snd := List.mem_map.2 ⟨e, he, rfl⟩
    rw [hs] at this
    obtain ⟨x, hx, _⟩ := List.mem_map.1 this
    have hx' := List.mem_filter.1 hx
    exact List.mem_map.2 ⟨x, hx'.1, by simpa using hx'.2⟩
  unfold parseCollected
  exact foldl_parseStep_none_of_clash w _ n1 n2 c1 c2 k hne hc1 hc2 hk1 hk2 _ [] (mem n1 c1 hc1 hk1) (mem n2 c2 hc2 hk2)

/-- The former F8a witness (a loop creating two `@task(name="f")` functions and `@task(name="f[0]") def g()`),
now a corpus case: parsing fails instead of dropping the loop's first function. -/
def f8aWorld : World :=
  { heap := [((0, 1), f8aFn "f" 1), ((0, 2), f8aFn "f" 2), ((0, 3), f8aFn "f[0]" 3)], registry := [], modules := [], nextGen := 1 }
example : parseCollected id f8aWorld [(0, 1), (0, 2), (0, 3)] = none ∧
    parseCollected List.reverse f8aWorld [(0, 1), (0, 2), (0, 3)] = none := by decide

/-- **C13_decorator_exact.** For pairwise different registered function objects (what
`_raise_error_when_task_functions_are_duplicated` guarantees) and every iteration order: a successful
parse yields every registered function exactly once, under pairwise distinct names. -/
theorem C13_decorator_exact (enum : List String → List String) (w : World) (tasks : List ObjId) (d : Dict)
    (hperm : ∀ l, (enum l).Perm l) (hnd : tasks.Nodup) (h : parseCollected enum w tasks = some d) :
    (d.map Prod.fst).Nodup ∧ (d.map Prod.snd).Nodup ∧ ∀ o, o ∈ d.map Prod.snd ↔ o ∈ tasks := by
  have hs := C13_ids_sound enum w tasks d h
  refine ⟨hs.1, ?_, fun o => ⟨?_, ?_⟩⟩
  · unfold parseCollected at h
    have hp := hperm (dedup ((parsedOf w tasks).map (·.1)))
    have hpn : ((parsedOf w tasks).map Prod.snd).Nodup := by
      have : (parsedOf w tasks).map Prod.snd = tasks := by
        unfold parsedOf; rw [List.map_map]; exact List.map_id'' (fun _ => rfl) tasks
      rw [this]; exact hnd
    exact foldl_parseStep_vals w (parsedOf w tasks) hpn _ [] d h (hp.nodup_iff.2 (nodup_dedup _)) (by simp) (by simp)
  · intro ho
    obtain ⟨e, he, rfl⟩ := List.mem_map.1 ho
    exact hs.2 e he
  · intro ho
    obtain ⟨k, hk⟩ := C13_ids_total_full enum w tasks d hperm h o ho
    exact List.mem_map.2 ⟨(k, o), hk, rfl⟩

/-- **C13_dup_id_fails.** If two functions of one repeated name get the same id — equal explicit ids,
argument values that stringify equally such as `1` and `"1"` or `True` and `"True"` — parsing fails
(`ValueError`), whatever the iteration order; the functions are not silently merged. -/
theorem C13_dup_id_fails (enum : List String → List String) (w : World) (tasks : List ObjId) (hperm : ∀ l, (enum l).Perm l)
    (n : String) (a b : Nat) (x y : String × ObjId) (hab : a < b)
    (ha : ((parsedOf w tasks).filter (fun e => e.1 == n))[a]? = some x)
    (hb : ((parsedOf w tasks).filter (fun e => e.1 == n))[b]? = some y)
    (hid : taskId w (paramsOfFirst w ((parsedOf w tasks).filter (fun e => e.1 == n))) x.1 a x.2
         = taskId w (paramsOfFirst w ((parsedOf w tasks).filter (fun e => e.1 == n))) y.1 b y.2) :
    parseCollected enum w tasks = none := by
  have hlen : 2 ≤ ((parsedOf w tasks).filter (fun e => e.1 == n)).length := by
    have := (List.getElem?_eq_some_iff.1 hb).1
    omega
  have hc : contribution w (parsedOf w tasks) n = none := by
    unfold contribution generateIds
    simp only [hlen, decide_true, ↓reduceIte]
    exact genLoop_none_of_dup w _ _ 0 [] a b x y hab ha hb (by simpa using hid)
  unfold parseCollected
  apply foldl_parseStep_none_of_mem w _ n hc
  apply (hperm _).mem_iff.2
  apply (mem_dedup _ _).2
  have hx := List.mem_of_getElem? ha
  have hx' := List.mem_filter.1 hx
  exact List.mem_map.2 ⟨x, hx'.1, by simpa using hx'.2⟩

/-- Non-vacuity of `C13_dup_id_fails`: `x=1` and `x="1"` in a loop over `f(x)`. -/
def dupWorld : World :=
  { heap := [((0, 1), { f8aFn "f" 1 with params := ["x"], defaults := [("x", Val.int 1)] }),
             ((0, 2), { f8aFn "f" 2 with params := ["x"], defaults := [("x", Val.str "1")] })],
    registry := [], modules := [], nextGen := 1 }
example : parseCollected id dupWorld [(0, 1), (0, 2)] = none := by decide
example : taskId dupWorld ["x"] "f" 0 (0, 1) = "f[1]" ∧ taskId dupWorld ["x"] "f" 1 (0, 2) = "f[1]" := by decide
/-- Non-vacuity of `C13_ids_total_full` / `C13_decorator_exact`: bool / int / float / str / other arguments give `f[True-x0]`, … -/
def okWorld : World :=
  { heap := [((0, 1), { f8aFn "f" 1 with params := ["x", "y"], defaults := [("x", Val.bool true), ("y", Val.other)] }),
             ((0, 2), { f8aFn "f" 2 with params := ["x", "y"], defaults := [("x", Val.float "1.0"), ("y", Val.int (-1))] }),
             ((0, 3), f8aFn "g" 3)],
    registry := [], modules := [], nextGen := 1 }
example : parseCollected id okWorld [(0, 1), (0, 2), (0, 3)]
    = some [("f[True-y0]", (0, 1)), ("f[1.0--1]", (0, 2)), ("g", (0, 3))] := by decide

theorem collect_fail_exit (env : Env) (enum : List String → List String)
    (h : Report.fail ∈ (collectReports env enum).2) : (collect env enum).exit = 3 := by
  unfold collect
  have : ((collectReports env enum).2.filter Report.isFail).length ≠ 0 := by
    intro h0
    have := List.length_eq_zero_iff.1 h0
    have hm : Report.fail ∈ (collectReports env enum).2.filter Report.isFail := List.mem_filter.2 ⟨h, rfl⟩
    rw [this] at hm; simp at hm
  simp only [beq_iff_eq, this, ↓reduceIte]
  decide

/-! ## The two hooks -/

/-- **C13_hooks_disjoint.** The prefix hook (collect.py) only reports functions that do *not* carry the
`task` mark, the decorator hook (task.py) only functions taken from `COLLECTED_TASKS[path]`; the `@task`
decorator marks a function in the very step that registers it. So a function object is handled by one
hook, by the other, or by neither — never by both. -/
theorem C13_hooks_disjoint_prefix (w : World) (path : Path) (m : Module) (p : Path) (b : String) (o : ObjId)
    (h : Report.succ p b o ∈ prefixReports w path m) : isMarked w o = false ∧ isTaskName b = true := by
  unfold prefixReports at h
  obtain ⟨e, _, he⟩ := List.mem_filterMap.1 h
  unfold prefixMember at he
  cases hobj : e.2 with
  | value => simp [hobj] at he
  | fn id =>
    simp only [hobj] at he
    by_cases hc : (!isMarked w id && isTaskName e.1) = true
    · simp only [hc, ↓reduceIte, Option.some.injEq, Report.succ.injEq] at he
      obtain ⟨_, rfl, rfl⟩ := he
      simpa using hc
    · simp [hc] at he

/-- **C13_prefix_exact.** The prefix hook reports exactly the module attributes (one per name: the last
binding) that are unmarked functions and whose name starts with `task_` — each exactly once
(`C13_prefix_once`). -/
theorem C13_prefix_exact (w : World) (path : Path) (m : Module) (p : Path) (b : String) (o : ObjId) :
    Report.succ p b o ∈ prefixReports w path m ↔
      (p = path ∧ (b, Obj.fn o) ∈ nsFinal m.ns ∧ isMarked w o = false ∧ isTaskName b = true) := by
  unfold prefixReports
  constructor
  · intro h
    obtain ⟨e, hm, he⟩ := List.mem_filterMap.1 h
    unfold prefixMember at he
    cases hobj : e.2 with
    | value => simp [hobj] at he
    | fn id =>
      simp only [hobj] at he
      by_cases hc : (!isMarked w id && isTaskName e.1) = true
      · simp only [hc, ↓reduceIte, Option.some.injEq, Report.succ.injEq] at he
        obtain ⟨rfl, rfl, rfl⟩ := he
        have : e = (e.1, Obj.fn id) := by rw [← hobj]
        rw [this] at hm
        exact ⟨rfl, hm, by simpa using hc⟩
      · simp [hc] at he
  · rintro ⟨rfl, hm, h1, h2⟩
    exact List.mem_filterMap.2 ⟨(b, Obj.fn o), hm, by simp [prefixMember, h1, h2]⟩

theorem C13_prefix_once (w : World) (path : Path) (m : Module) :
    ((prefixReports w path m).filterMap Report.key).Nodup :=
  (prefix_keys w path _ (nsFinal_keys_nodup m.ns)).1

theorem C13_hooks_disjoint_decorator (enum : List String → List String) (w w' : World) (path : Path) (rs : List Report)
    (h : decoratorReports enum w path = (w', some rs)) (p : Path) (b : String) (o : ObjId) (hr : Report.succ p b o ∈ rs) :
    o ∈ regGet w.registry path := by
  unfold decoratorReports at h
  by_cases he : (regGet w.registry path).isEmpty = true
  · simp [he] at h; obtain ⟨_, rfl⟩ := h; simp at hr
  · simp only [he] at h
    by_cases hd : hasDup (regGet w.registry path) = true
    · simp [hd] at h
    · simp only [hd] at h
      cases hp : parseCollected enum { w with registry := regErase w.registry path } (regGet w.registry path) with
      | none => simp [hp] at h
      | some d =>
        simp only [hp, Bool.false_eq_true, ↓reduceIte, Prod.mk.injEq, Option.some.injEq] at h
        obtain ⟨_, rfl⟩ := h
        obtain ⟨e, he', heq⟩ := List.mem_map.1 hr
        simp only [Report.succ.injEq] at heq
        obtain ⟨_, _, rfl⟩ := heq
        exact (C13_ids_sound enum _ _ d hp).2 e he'

/-- the `@task` decorator: the wrapped function is marked and registered under its own file in one step. -/
theorem C13_wrap_marks_and_registers (file : Path) (gen : Nat) (w : World) (ns : Namespace) (obj : Nat)
    (name id : Option String) (kw : List (String × Val)) (f : FnObj) (hf : w.heap.lookup (gen, obj) = some f) :
    isMarked (execStmt file gen (w, ns) (.wrap obj name id kw)).1 (gen, obj) = true ∧
    (gen, obj) ∈ regGet (execStmt file gen (w, ns) (.wrap obj name id kw)).1.registry f.file := by
  simp only [execStmt, hf]
  exact ⟨by simp [isMarked, List.lookup], regGet_regAppend _ _ _⟩

/-- What `pytask_collect_file_protocol` returns when the module imports and the decorator hook does not raise:
the reports of the prefix hook followed by those of the decorator hook (pluggy order from `Generated`). -/
theorem collectFile_ok (env : Env) (enum : List String → List String) (w w1 w2 : World) (path : Path) (m : Module)
    (rs : List Report) (htf : env.cfg.isTaskFile path = true) (hi : importPath env w path = (w1, some m))
    (hd : decoratorReports enum w1 path = (w2, some rs)) :
    collectFile env enum w path = (w2, prefixReports w1 path m ++ rs) := by
  simp [collectFile, htf, Generated.collectFileOrder, collectFileStep, hi, hd]

def f8bRoot : Path := ["r", "proj"]
/-- The former F8b witness: `def task_x()` and `@task(name="task_x") def other()` in one module. -/
def f8bEnv : Env :=
  { fs := { pre := ["r"], tree := .dir "proj" [.file "task_m.py"] },
    cfg := { root := f8bRoot, paths := [f8bRoot], ignore := [], taskFiles := Generated.defaultTaskFiles },
    progs := [(f8bRoot ++ ["task_m.py"], { imports := [], stmts := [
      .defFn 1 (some "task_x") "task_x" [] [] 1, .defFn 2 (some "other") "other" [] [] 2, .wrap 2 (some "task_x") none []] })],
    preloaded := [] }

/-- **C13_cross_hook_full** (true since fix faa5f38): all tasks of a session — across both hooks, all
modules, all given paths — have pairwise distinct `(path, base_name)`, i.e. distinct names and signatures. -/
theorem C13_cross_hook_full (env : Env) (enum : List String → List String) :
    ((collect env enum).tasks.map (fun t => ((t.path, t.base) : TKey))).Nodup := by
  unfold collect
  simp only
  rw [filterMap_task_keys]
  unfold collectReports
  simp only [Generated.collectDupSignaturePass, ↓reduceIte, failDups]
  exact (failDupsLoop_keys _ []).1

/-- **C13_dup_signature_fails** (the repair of F8b). If two successful collection reports carry the same
`(path, base_name)` — a `task_` function and an `@task` function of the same name in one module — the later
one becomes a failed report and the build ends with exit code 3: neither is silently dropped by the DAG. -/
theorem C13_dup_signature_fails (env : Env) (enum : List String → List String) (pre mid post : List Report)
    (p : Path) (b : String) (o1 o2 : ObjId)
    (h : (rawReports env enum).2 = pre ++ Report.succ p b o1 :: mid ++ Report.succ p b o2 :: post) :
    (collect env enum).exit = 3 := by
  apply collect_fail_exit
  unfold collectReports
  simp only [Generated.collectDupSignaturePass, ↓reduceIte, failDups, h]
  exact failDups_two pre mid post [] p b o1 o2

/-- the corpus case end to end: one failed report, exit code 3, only the first function is a task. -/
example : (collect f8bEnv id).exit = 3 ∧ (collect f8bEnv id).fails = 1 ∧ (collect f8bEnv id).tasks.map (·.tag) = [1] := by decide

/-- **C13_cross_hook_partial.** When no `task_` function of a module carries a base name that the decorator hook
also produces, the reports of that module already have pairwise distinct `(path, base_name)` — the
duplicate-signature pass fails nothing of it. -/
theorem C13_cross_hook_partial (env : Env) (enum : List String → List String) (w w1 w2 : World) (path : Path) (m : Module)
    (rs : List Report) (htf : env.cfg.isTaskFile path = true) (hi : importPath env w path = (w1, some m))
    (hd : decoratorReports enum w1 path = (w2, some rs))
    (hdisj : ∀ k ∈ (prefixReports w1 path m).filterMap Report.key, k ∉ rs.filterMap Report.key) :
    ((collectFile env enum w path).2.filterMap Report.key).Nodup := by
  rw [collectFile_ok env enum w w1 w2 path m rs htf hi hd]
  simp only [List.filterMap_append]
  refine List.nodup_append.2 ⟨(prefix_keys w1 path _ (nsFinal_keys_nodup m.ns)).1, ?_, ?_⟩
  · unfold decoratorReports at hd
    by_cases he : (regGet w1.registry path).isEmpty = true
    · simp [he] at hd; obtain ⟨_, rfl⟩ := hd; simp
    · simp only [he] at hd
      by_cases hdup : hasDup (regGet w1.registry path) = true
      · simp [hdup] at hd
      · simp only [hdup] at hd
        cases hp : parseCollected enum { w1 with registry := regErase w1.registry path } (regGet w1.registry path) with
        | none => simp [hp] at hd
        | some d =>
          simp only [hp, Bool.false_eq_true, ↓reduceIte, Prod.mk.injEq, Option.some.injEq] at hd
          obtain ⟨_, rfl⟩ := hd
          have := dict_keys_pair path d (C13_ids_sound enum _ _ d hp).1
          rw [filterMap_key_map]; exact this
  · intro a ha b hb hab
    subst hab
    exact hdisj a ha hb

/-- **C13_report_path.** Every task collected while handling a file carries that file's path (even when the
module object came out of the `sys.modules` cache or from a shadowing file — the root of F12), so tasks of
different files of the walk never share a name; together with `C13_walk_once` and
`C13_cross_hook_partial` all task names of a session are pairwise distinct outside the F8b class. -/
theorem C13_report_path (env : Env) (enum : List String → List String) (w : World) (path p : Path) (b : String) (o : ObjId)
    (h : Report.succ p b o ∈ (collectFile env enum w path).2) : p = path := by
  unfold collectFile at h
  by_cases htf : env.cfg.isTaskFile path = true
  · simp only [htf, Bool.not_true, Bool.false_eq_true, ↓reduceIte, Generated.collectFileOrder, List.foldl_cons, List.foldl_nil,
      collectFileStep, beq_self_eq_true] at h
    cases hi : importPath env w path with
    | mk w1 om =>
      cases om with
      | none => simp [hi] at h
      | some m =>
        simp only [hi, Bool.false_eq_true, ↓reduceIte, List.nil_append] at h
        have hne : ("task" == "collect") = false := by decide
        simp only [hne, Bool.false_eq_true, ↓reduceIte] at h
        cases hd : decoratorReports enum w1 path with
        | mk w2 ors =>
          cases ors with
          | none => simp [hd] at h
          | some rs =>
            simp only [hd, Bool.false_eq_true, ↓reduceIte] at h
            rcases List.mem_append.1 h with h | h
            · exact ((C13_prefix_exact w1 path m p b o).1 h).1
            · unfold decoratorReports at hd
              by_cases he : (regGet w1.registry path).isEmpty = true
              · simp [he] at hd; obtain ⟨_, rfl⟩ := hd; simp at h
              · simp only [he] at hd
                by_cases hdup : hasDup (regGet w1.registry path) = true
                · simp [hdup] at hd
                · simp only [hdup] at hd
                  cases hp : parseCollected enum { w1 with registry := regErase w1.registry path } (regGet w1.registry path) with
                  | none => simp [hp] at hd
                  | some d =>
                    simp only [hp, Bool.false_eq_true, ↓reduceIte, Prod.mk.injEq, Option.some.injEq] at hd
                    obtain ⟨_, rfl⟩ := hd
                    obtain ⟨e, _, heq⟩ := List.mem_map.1 h
                    simp only [Report.succ.injEq] at heq
                    exact heq.1.symm
  · simp [htf] at h

/-! ## Module names and the `sys.modules` cache -/

/-- **C13_module_inj_full**: different files get different module names. -/
def C13_module_inj_full : Prop := ∀ (root p1 p2 : Path), pathKey root p1 = pathKey root p2 → p1 = p2

/-- **Finding F12**: false — `x.y/task_t.py` and `x_y/task_t.py` are both `x_y.task_t`; likewise two
packages of the same name in different directories, and a file shadowing a package member. -/
theorem C13_module_inj_full_false : ¬ C13_module_inj_full := by
  intro h
  have := h ["r"] ["r", "x.y", "task_t.py"] ["r", "x_y", "task_t.py"] (by decide)
  simp at this

def f12Fs : FS := { pre := ["r"], tree := .dir "proj" [.dir "a" [.dir "pkg" [.file "__init__.py", .file "task_x.py"]],
                                                         .dir "b" [.dir "pkg" [.file "__init__.py", .file "task_x.py"]]] }
example : pkgTop f12Fs ["r", "proj", "a", "pkg", "task_x.py"] = some ["r", "proj", "a", "pkg"] ∧
    pkgKey ["r", "proj", "a"] ["r", "proj", "a", "pkg", "task_x.py"] = pkgKey ["r", "proj", "b"] ["r", "proj", "b", "pkg", "task_x.py"] := by decide

/-- F12 end to end in the model: the second package's function is never collected, the first one twice. -/
def f12Env : Env :=
  { fs := f12Fs, cfg := { root := f8bRoot, paths := [f8bRoot], ignore := [], taskFiles := Generated.defaultTaskFiles },
    progs := [(f8bRoot ++ ["a", "pkg", "task_x.py"], { imports := [], stmts := [.defFn 1 (some "task_x") "task_x" [] [] 1] }),
              (f8bRoot ++ ["b", "pkg", "task_x.py"], { imports := [], stmts := [.defFn 2 (some "task_x") "task_x" [] [] 2] })],
    preloaded := [] }
example : (collect f12Env id).exit = 0 ∧ (collect f12Env id).tasks.map (·.tag) = [1, 1] := by decide

/-- a path part that contains none of the characters of the translator's normalisation table is its own
module-name piece. -/
theorem normPart_id (c : String) (h : ∀ ch ∈ c.toList, ch ∉ Generated.moduleNameNormalised) : dotToUnderscore c = c := by
  unfold dotToUnderscore
  have : c.toList.map normChar = c.toList := by
    calc c.toList.map normChar = c.toList.map id := List.map_congr_left (fun ch hch => by
          have := h ch hch
          simp [normChar, this])
      _ = c.toList := by simp
  rw [this, String.ofList_toList]

/-- **C13_module_inj_partial** (over the normalisation table read from the source). For files below the root
that are not in a package, whose directory names and stems contain no character that
`_module_name_from_path` rewrites, whose stem is not `__init__`, and that do not differ only in their
extension, the module name determines the file. -/
theorem C13_module_inj_partial (root r1 r2 : Path) (l1 l2 : String)
    (hd1 : ∀ c ∈ r1 ++ [fileStem l1], ∀ ch ∈ c.toList, ch ∉ Generated.moduleNameNormalised)
    (hd2 : ∀ c ∈ r2 ++ [fileStem l2], ∀ ch ∈ c.toList, ch ∉ Generated.moduleNameNormalised)
    (hi1 : fileStem l1 ≠ "__init__") (hi2 : fileStem l2 ≠ "__init__")
    (hext : fileStem l1 = fileStem l2 → l1 = l2)
    (h : pathKey root (root ++ r1 ++ [l1]) = pathKey root (root ++ r2 ++ [l2])) :
    root ++ r1 ++ [l1] = root ++ r2 ++ [l2] := by
  have key : ∀ (r : Path) (l : String), (∀ c ∈ r ++ [fileStem l], ∀ ch ∈ c.toList, ch ∉ Generated.moduleNameNormalised) →
      fileStem l ≠ "__init__" → pathKey root (root ++ r ++ [l]) = r ++ [fileStem l] := by
    intro r l hd hi
    have hw : withStem (root ++ r ++ [l]) = root ++ (r ++ [fileStem l]) := by
      unfold withStem
      simp [List.append_assoc]
    have hp : root.isPrefixOf (withStem (root ++ r ++ [l])) = true := by
      rw [hw, List.isPrefixOf_iff_prefix]; exact List.prefix_append _ _
    have hrel : relStem root (root ++ r ++ [l]) = r ++ [fileStem l] := by
      unfold relStem
      rw [hw, List.drop_left]
    unfold pathKey
    simp only [hp, ↓reduceIte, hrel]
    have hl : (r ++ [fileStem l]).getLast? = some (fileStem l) := by simp
    have hne : ((r ++ [fileStem l]).getLast? == some "__init__") = false := by
      rw [hl]; simpa using hi
    simp only [hne, Bool.and_false, Bool.false_eq_true, ↓reduceIte]
    calc (r ++ [fileStem l]).map dotToUnderscore = (r ++ [fileStem l]).map id :=
          List.map_congr_left (fun c hc => normPart_id c (hd c hc))
      _ = r ++ [fileStem l] := by simp
  rw [key r1 l1 hd1 hi1, key r2 l2 hd2 hi2] at h
  have hlen : r1.length = r2.length := by
    have := congrArg List.length h; simp at this; exact this
  have := List.append_inj h hlen
  have hl : l1 = l2 := hext (by simpa using this.2)
  rw [this.1, hl]

/-- **C13_module_inj_nodot** (pins the F12 class to the rule of the current code: `.` is the *only* character
rewritten). Names without a `.` — whatever else they contain: `-`, digits, upper case, leading
underscores — never collide: `exp-1/task_run.py` and `exp_1/task_run.py` are different modules. -/
theorem C13_module_inj_nodot (root r1 r2 : Path) (l1 l2 : String)
    (hd1 : ∀ c ∈ r1 ++ [fileStem l1], '.' ∉ c.toList) (hd2 : ∀ c ∈ r2 ++ [fileStem l2], '.' ∉ c.toList)
    (hi1 : fileStem l1 ≠ "__init__") (hi2 : fileStem l2 ≠ "__init__")
    (hext : fileStem l1 = fileStem l2 → l1 = l2)
    (h : pathKey root (root ++ r1 ++ [l1]) = pathKey root (root ++ r2 ++ [l2])) :
    root ++ r1 ++ [l1] = root ++ r2 ++ [l2] := by
  have tbl : ∀ ch, ch ∈ Generated.moduleNameNormalised → ch = '.' := by
    intro ch hch; simpa [Generated.moduleNameNormalised] using hch
  refine C13_module_inj_partial root r1 r2 l1 l2 ?_ ?_ hi1 hi2 hext h
  · intro c hc ch hch hmem; rw [tbl ch hmem] at hch; exact hd1 c hc hch
  · intro c hc ch hch hmem; rw [tbl ch hmem] at hch; exact hd2 c hc hch

example : pathKey ["r"] ["r", "exp-1", "task_run.py"] = ["exp-1", "task_run"] ∧
    pathKey ["r"] ["r", "exp_1", "task_run.py"] = ["exp_1", "task_run"] ∧
    pathKey ["r"] ["r", "_Priv2", "task_A-b.py"] = ["_Priv2", "task_A-b"] := by decide

example : pathKey ["r"] (["r"] ++ ["a", "sub"] ++ ["task_x.py"]) = ["a", "sub", "task_x"] := by decide

/-- **C13_import_own_partial.** A source file outside any package whose module name is not yet in
`sys.modules` is executed itself, and the module returned is its own. -/
theorem C13_import_own_partial (env : Env) (w : World) (path : Path) (hp : pkgTop env.fs path = none)
    (hc : w.modules.lookup (pathKey env.cfg.root path) = none) (hs : isPySource path = true) :
    ∃ w' m, importPath env w path = (w', some m) ∧ m.src = some path := by
  refine ⟨insertMissing (loadAs env w (pathKey env.cfg.root path) path).1 (pathKey env.cfg.root path),
          (loadAs env w (pathKey env.cfg.root path) path).2, ?_, ?_⟩
  · simp only [importPath, hp, importByPath, hc, hs, ↓reduceIte]
  · simp [loadAs]

/-! ## Failures are loud: exit code 3 -/

/-- **C13_exit.** The session's exit code is `COLLECTION_FAILED` (3) exactly when some collection report
failed, and `OK`'s code otherwise (before DAG construction and execution). -/
theorem C13_exit (env : Env) (enum : List String → List String) :
    ((collect env enum).exit = 3 ↔ (collect env enum).fails ≠ 0) := by
  unfold collect
  by_cases h : ((collectReports env enum).2.filter Report.isFail).length = 0
  · simp only [h, beq_self_eq_true, ↓reduceIte, ne_eq, not_true_eq_false, iff_false]; decide
  · simp only [beq_iff_eq, h, ↓reduceIte, ne_eq, not_false_eq_true, iff_true]; decide

/-- **C13_leftovers_fail.** Every function that is still registered in `COLLECTED_TASKS` after all files
were collected (defined in a module that is not a task module, or whose module was executed under
another file's name) becomes a failed report: the build ends with exit code 3, the function is not
silently ignored. -/
theorem C13_leftovers_fail (env : Env) (enum : List String → List String) (k : Path) (os : List ObjId) (o : ObjId)
    (hk : (k, os) ∈ (rawReports env enum).1.registry) (ho : o ∈ os) : (collect env enum).exit = 3 := by
  apply collect_fail_exit
  unfold collectReports
  simp only [Generated.collectDupSignaturePass, ↓reduceIte, failDups]
  apply failDupsLoop_fail
  unfold rawReports
  simp only
  apply List.mem_append.2; right
  unfold leftovers
  exact List.mem_flatMap.2 ⟨(k, os), hk, List.mem_map.2 ⟨o, ho, rfl⟩⟩

/-- **C13_file_fail_exit.** If collecting some file of the walk yields a failed report (duplicate id,
re-wrapped function object, import error), the build ends with exit code 3. -/
theorem C13_file_fail_exit (env : Env) (enum : List String → List String) (pre post : List Path) (p : Path)
    (hfiles : notIgnoredPaths env.fs env.cfg.ignored env.cfg.paths = pre ++ p :: post)
    (hf : Report.fail ∈ (collectFile env enum (pre.foldl (collectStep env enum) (env.init, [])).1 p).2) :
    (collect env enum).exit = 3 := by
  apply collect_fail_exit
  unfold collectReports
  simp only [Generated.collectDupSignaturePass, ↓reduceIte, failDups]
  apply failDupsLoop_fail
  unfold rawReports pathReports
  simp only [hfiles]
  exact List.mem_append.2 (Or.inl (List.mem_append.2 (Or.inl (failMixed_fail _ _ (foldl_collectStep_split env enum pre post p _ _ hf)))))

/-- A raising decorator hook (duplicate ids, duplicated function objects) turns the whole file into one
failed report. -/
theorem C13_raise_is_fail (env : Env) (enum : List String → List String) (w w1 w2 : World) (path : Path) (m : Module)
    (htf : env.cfg.isTaskFile path = true) (hi : importPath env w path = (w1, some m))
    (hd : decoratorReports enum w1 path = (w2, none)) : (collectFile env enum w path).2 = [Report.fail] := by
  simp [collectFile, htf, Generated.collectFileOrder, collectFileStep, hi, hd]

/-! ## Functions handed over through `build(tasks=[…])` -/

/-- one iteration of `_collect_from_tasks` (fixed code, 21cea5f): whatever metadata the function carries — none,
markers only (`try_first`, `persist`, `skipif`, a user marker), or the `task` mark — it yields a report. -/
theorem ptaskReport_some (i : Nat) (pt : PTask) :
    ptaskReport i pt = some (if pt.mixedPrio then Report.fail else Report.succ pt.file pt.name (0, i)) := by
  unfold ptaskReport PTask.wraps
  simp only [Generated.Col.ptaskWrapWhen]
  cases pt.marked <;> simp

/-- **C13_ptasks_total** (true since fix 21cea5f, F31). Every task function handed to `build(tasks=[…])` — the `k`-th
of the list, with or without `@task`, with or without other markers — is collected under `(get_file(fn), name)`,
or, if it cannot be (mixed priorities), a failed report stands in its place: none is silently dropped. -/
theorem C13_ptasks_total : ∀ (pts : List PTask) (i k : Nat) (pt : PTask), pts[k]? = some pt →
    (ptaskReports i pts)[k]? = some (if pt.mixedPrio then Report.fail else Report.succ pt.file pt.name (0, i + k)) := by
  intro pts
  induction pts with
  | nil => intro i k pt h; simp at h
  | cons x rest ih =>
    intro i k pt h
    unfold ptaskReports
    rw [ptaskReport_some]
    cases k with
    | zero => simp at h; subst h; simp
    | succ k' =>
      simp at h
      have := ih (i + 1) k' pt h
      simp only [Option.toList, List.cons_append, List.nil_append, List.getElem?_cons_succ]
      rw [this, show i + 1 + k' = i + (k' + 1) by omega]

theorem C13_ptasks_length (pts : List PTask) (i : Nat) : (ptaskReports i pts).length = pts.length := by
  induction pts generalizing i with
  | nil => rfl
  | cons x rest ih => unfold ptaskReports; rw [ptaskReport_some]; simp [ih]

/-- the F31 witness (a function that only carries `try_first`, no `@task`) is collected; one with both priorities fails. -/
example : (ptaskReports 0 [{ file := ["e", "progmod.py"], name := "work", tag := 1, hasMeta := true },
                           { file := ["e", "progmod.py"], name := "both", tag := 2, hasMeta := true, mixedPrio := true }]).map Report.key
    = [some (["e", "progmod.py"], "work"), none] := by decide

/-! ## Tasks defined by a running task generator -/

theorem childReports_clean (path : Path) (gen : Nat) : ∀ (cs : List Child) (i : Nat),
    (childReports path gen i cs).any Report.isFail = false →
    (childReports path gen i cs).filter (fun r => !r.isFail) = childReports path gen i cs ∧
    (childReports path gen i cs).length = cs.length ∧ ∀ c ∈ cs, c.uncollectable = false := by
  intro cs
  induction cs with
  | nil => intro i _; simp [childReports]
  | cons c rest ih =>
    intro i h
    unfold childReports at h ⊢
    cases hc : c.uncollectable with
    | true => simp [hc, Report.isFail] at h
    | false =>
      simp only [hc, Bool.false_eq_true, ↓reduceIte, List.any_cons, Report.isFail, Bool.false_or] at h
      obtain ⟨h1, h2, h3⟩ := ih (i + 1) h
      simp only [Bool.false_eq_true, ↓reduceIte]
      have hs : (!(Report.succ path c.name (gen, i)).isFail) = true := rfl
      refine ⟨by rw [List.filter_cons, if_pos hs, h1], by simp [h2], ?_⟩
      intro c' hc'
      rcases List.mem_cons.1 hc' with rfl | hc'
      · exact hc
      · exact h3 c' hc'

theorem clashesExisting_false : ∀ (rs : List Report) (seen : List TKey), clashesExisting seen rs = false →
    (rs.filterMap Report.key).Nodup ∧ ∀ k ∈ rs.filterMap Report.key, k ∉ seen := by
  intro rs
  induction rs with
  | nil => intro seen _; simp
  | cons r rest ih =>
    intro seen h
    cases r with
    | fail =>
      simp only [clashesExisting] at h
      have := ih seen h
      simp only [List.filterMap_cons, Report.key]
      exact this
    | succ p b o =>
      simp only [clashesExisting, Bool.or_eq_false_iff] at h
      obtain ⟨h1, h2⟩ := ih ((p, b) :: seen) h.2
      simp only [List.filterMap_cons, Report.key]
      refine ⟨List.nodup_cons.2 ⟨fun hm => h2 _ hm (by simp), h1⟩, ?_⟩
      intro k hk
      rcases List.mem_cons.1 hk with rfl | hk
      · simpa using h.1
      · exact fun hks => h2 k hk (List.mem_cons_of_mem _ hks)

/-- Without the raises (the code before the fixes) an uncollectable child vanishes (F35) and a child named like an
existing task is merged with it (F39); with them the generator fails. -/
example : generatorCollect false false [] (childReports ["r", "task_m.py"] 1 0 [{ name := "a", tag := 1 }, { name := "b", tag := 2, uncollectable := true }])
    = some [Report.succ ["r", "task_m.py"] "a" (1, 0)] ∧
    generatorCollect true true [] (childReports ["r", "task_m.py"] 1 0 [{ name := "a", tag := 1 }, { name := "b", tag := 2, uncollectable := true }]) = none ∧
    generatorCollect true false [(["r", "task_m.py"], "task_x")] (childReports ["r", "task_m.py"] 1 0 [{ name := "task_x", tag := 1 }])
      = some [Report.succ ["r", "task_m.py"] "task_x" (1, 0)] ∧
    generatorCollect true true [(["r", "task_m.py"], "task_x")] (childReports ["r", "task_m.py"] 1 0 [{ name := "task_x", tag := 1 }]) = none ∧
    generatorCollect true true [] (childReports ["r", "task_m.py"] 1 0 [{ name := "y", tag := 1 }, { name := "y", tag := 2 }]) = none := by
  refine ⟨rfl, rfl, rfl, rfl, rfl⟩

/-- Non-vacuity: a helper module's `@task` function is left over → exit 3; a duplicate id → exit 3. -/
def leftEnv : Env :=
  { fs := { pre := ["r"], tree := .dir "proj" [.file "task_m.py", .file "helper_a.py"] },
    cfg := { root := f8bRoot, paths := [f8bRoot], ignore := [], taskFiles := Generated.defaultTaskFiles },
    progs := [(f8bRoot ++ ["task_m.py"], { imports := ["helper_a"], stmts := [.defFn 1 (some "task_a") "task_a" [] [] 1] }),
              (f8bRoot ++ ["helper_a.py"], { imports := [], stmts := [.defFn 2 (some "helped") "helped" [] [] 2, .wrap 2 none none []] })],
    preloaded := [] }
example : (collect leftEnv id).exit = 3 ∧ (collect leftEnv id).fails = 1 ∧ (collect leftEnv id).tasks.map (·.tag) = [1] := by decide

end Collect
end Pytask
