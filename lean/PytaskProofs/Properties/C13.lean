import PytaskProofs.Lemmas.Collect
/-!
# C13 — every declared task is collected exactly once under a unique id

Property theorems only (model: `PytaskModel/Collect.lean`, M9a). `_full` statements that are false of the
current code are kept as `def … : Prop` with a proved negation (findings F8a, F8b, F12) next to the
strongest true weakening (`_partial`).
-/
namespace Pytask
namespace Collect

/-! ## The walk: every non-ignored file once, whatever paths are given -/

/-- **C13_walk_once.** For any list of configured paths — overlapping, repeated, files and directories —
`_not_ignored_paths` yields every file at most once, and yields exactly the files that are reachable
from some given path through non-ignored directories and are not ignored themselves. -/
theorem C13_walk_once (fs : FS) (ign : Path → Bool) (paths : List Path) :
    (notIgnoredPaths fs ign paths).Nodup ∧
    ∀ p, p ∈ notIgnoredPaths fs ign paths ↔ ∃ r ∈ paths, reachFrom fs ign r p := by
  have := foldl_walkPath_spec fs ign paths [] List.nodup_nil
  refine ⟨this.1, fun p => ?_⟩
  have h := this.2 p
  simpa [notIgnoredPaths] using h

/-- Repeating a path, or adding a path below one that is already given, changes nothing about *which*
files are collected. -/
theorem C13_walk_repeat (fs : FS) (ign : Path → Bool) (paths : List Path) (r : Path) (hr : r ∈ paths) (p : Path) :
    p ∈ notIgnoredPaths fs ign (paths ++ [r]) ↔ p ∈ notIgnoredPaths fs ign paths := by
  rw [(C13_walk_once fs ign _).2, (C13_walk_once fs ign _).2]
  constructor
  · rintro ⟨r', hr', h⟩
    rcases List.mem_append.1 hr' with h' | h'
    · exact ⟨r', h', h⟩
    · simp at h'; subst h'; exact ⟨r', hr, h⟩
  · rintro ⟨r', hr', h⟩
    exact ⟨r', List.mem_append.2 (Or.inl hr'), h⟩

/-! ## Shortest unique display names -/

/-- **C13_short_names_inj.** `_find_shortest_uniquely_identifiable_name_for_tasks` never gives two
different tasks (different `(path, base_name)`) the same shortened name, for any number of rounds
`range(lo, hi)`. -/
theorem C13_short_names_inj (keys : List TKey) (e1 e2 : TKey × TKey)
    (h1 : e1 ∈ shortNames keys) (h2 : e2 ∈ shortNames keys) (hne : e1.1 ≠ e2.1) : e1.2 ≠ e2.2 := by
  unfold shortNames shortRounds at h1 h2
  have inv := foldl_roundStep_inv (Generated.shortNameHi - Generated.shortNameLo) Generated.shortNameLo
    ([], dedupK keys) 0 (Nat.zero_le _) ⟨by simp, by simp, by simp⟩
  generalize (List.range' Generated.shortNameLo (Generated.shortNameHi - Generated.shortNameLo)).foldl roundStep ([], dedupK keys) = r at h1 h2 inv
  rcases List.mem_append.1 h1 with h1 | h1 <;> rcases List.mem_append.1 h2 with h2 | h2
  · exact inv.inj e1 h1 e2 h2 hne
  · obtain ⟨k, hk, rfl⟩ := List.mem_map.1 h2
    obtain ⟨n0, _, hs, hrem⟩ := inv.fixed e1 h1
    have := full_ne_shortOf k e1.1 n0 (by rw [← hs]; exact hrem k hk)
    intro heq; apply this; simp only at heq; rw [← heq, hs]
  · obtain ⟨k, hk, rfl⟩ := List.mem_map.1 h1
    obtain ⟨n0, _, hs, hrem⟩ := inv.fixed e2 h2
    have := full_ne_shortOf k e2.1 n0 (by rw [← hs]; exact hrem k hk)
    intro heq; apply this; simp only at heq; rw [heq, hs]
  · obtain ⟨k1, _, rfl⟩ := List.mem_map.1 h1
    obtain ⟨k2, _, rfl⟩ := List.mem_map.1 h2
    intro heq
    apply hne
    simp only [Prod.mk.injEq, List.cons.injEq, true_and] at heq
    exact Prod.ext heq.1 heq.2

/-- Every task gets a shortened name (none is lost by the renaming). -/
theorem C13_short_names_total (keys : List TKey) (k : TKey) (hk : k ∈ keys) :
    ∃ s, (k, s) ∈ shortNames keys := by
  unfold shortNames
  have := (foldl_roundStep_keys shortRounds ([], dedupK keys) k).2 (Or.inr ((mem_dedupK keys k).2 hk))
  rcases this with h | h
  · obtain ⟨e, he, rfl⟩ := List.mem_map.1 h
    exact ⟨e.2, List.mem_append.2 (Or.inl he)⟩
  · exact ⟨_, List.mem_append.2 (Or.inr (List.mem_map.2 ⟨k, h, rfl⟩))⟩

/-- Non-vacuity: the same stem in three directories needs one, two and three path components. -/
example : shortNames [(["t", "a", "task_x.py"], "task_x"), (["t", "b", "task_x.py"], "task_x"), (["t", "task_y.py"], "task_x")]
    = [((["t", "task_y.py"], "task_x"), (["task_y.py"], "task_x")),
       ((["t", "a", "task_x.py"], "task_x"), (["a", "task_x.py"], "task_x")),
       ((["t", "b", "task_x.py"], "task_x"), (["b", "task_x.py"], "task_x"))] := by decide

end Collect
end Pytask
