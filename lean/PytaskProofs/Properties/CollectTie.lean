-- TIE-PROPS: C13
-- TIE-SECTION: extract_collect
import PytaskModel.CollectGen
import PytaskProofs.Lemmas.Collect
/-!
# CollectTie — the hand-written collection model M9a equals the collection computed from the source

`Collect.lean` (the model under the theorems of C13) writes out by hand what `_not_ignored_paths`,
`parse_collected_tasks_with_task_marker`, `_generate_ids_for_tasks`, `_arg_value_to_id_component`,
`_module_name_from_path`, `import_path`, `pytask_collect` and the short-name filter do.
`harness/extract_collect.py` reads the control structure of these functions from the tree under check into
`Generated.Col.*`, `CollectGen.lean` interprets that data, and the theorems below say that, **for all arguments**, the
interpreters return what the hand-written definitions return. Their proofs unfold the generated terms: a source change
that alters an extracted fact (a dropped `seen` check, a moved duplicate-signature pass, a dropped `raise`, another arm
order, another normalisation step, a reordered cache lookup, another filter for `id_to_task`, …) makes this module fail
to compile, and the check reports PROOF-BROKEN for C13.
-/
namespace Pytask
open Collect CollectGen Generated.Col

/-! ### `_not_ignored_paths` -/

mutual
theorem walkGenT_eq (ign : Path → Bool) (pre : Path) (t : Tree) (acc : List Path) :
    walkGenT ign pre t (acc, acc) = (walkT ign pre t acc, walkT ign pre t acc) := by
  cases t with
  | file n =>
    unfold walkGenT walkT
    simp only [walkBody, evalWs, evalW]
    by_cases hi : ign (pre ++ [n]) = true
    · simp [hi]
    · by_cases hc : pre ++ [n] ∈ acc
      · simp [hi, hc]
      · simp [hi, hc]
  | dir n cs =>
    unfold walkGenT walkT
    simp only [walkBody, evalWs, evalW]
    by_cases hi : ign (pre ++ [n]) = true
    · simp [hi]
    · simp only [hi, Bool.false_eq_true, ↓reduceIte]
      exact walkGenTs_eq ign (pre ++ [n]) cs acc
theorem walkGenTs_eq (ign : Path → Bool) (pre : Path) (ts : List Tree) (acc : List Path) :
    walkGenTs ign pre ts (acc, acc) = (walkTs ign pre ts acc, walkTs ign pre ts acc) := by
  cases ts with
  | nil => unfold walkGenTs walkTs; rfl
  | cons t rest =>
    unfold walkGenTs walkTs
    rw [walkGenT_eq ign pre t acc]
    exact walkGenTs_eq ign pre rest _
end

/-- **CollectTie_walk.** The loop body of `_not_ignored_paths` as read from the source — ignore check first, directories
are entered, a file is yielded only if it is not in `seen` and is added to `seen` — run over any tree from any list of path
arguments, with `seen = set()`, yields the model's `notIgnoredPaths`. -/
theorem CollectTie_walk (fs : FS) (ign : Path → Bool) (paths : List Path) :
    notIgnoredPathsGen fs ign paths = notIgnoredPaths fs ign paths := by
  unfold notIgnoredPathsGen notIgnoredPaths
  simp only [walkDedupsPaths, Bool.false_eq_true, ↓reduceIte]
  have : ∀ (ps : List Path) (acc : List Path),
      ps.foldl (walkPathGen fs ign) (acc, acc) = (ps.foldl (walkPath fs ign) acc, ps.foldl (walkPath fs ign) acc) := by
    intro ps
    induction ps with
    | nil => intro acc; rfl
    | cons p rest ih =>
      intro acc
      simp only [List.foldl_cons]
      have h1 : walkPathGen fs ign (acc, acc) p = (walkPath fs ign acc p, walkPath fs ign acc p) := by
        unfold walkPathGen walkPath
        cases fs.lookup p with
        | none => rfl
        | some t => exact walkGenT_eq ign p.dropLast t acc
      rw [h1]; exact ih _
  rw [this paths []]

/-! ### ids of `@task` functions -/

/-- **CollectTie_argToId.** The arms of `_arg_value_to_id_component` in source order (`id_func` is `None`) compute the
model's `argToIdComponent`. -/
theorem CollectTie_argToId (argName : String) (v : Option Val) (i : Nat) :
    argToIdGen argName v i = argToIdComponent argName v i := by
  unfold argToIdGen argToIdComponent
  cases v with
  | none => simp [argArms, argArmsRun, argTest, argRes]
  | some x =>
    by_cases h : x.isScalar = true
    · simp [argArms, argArmsRun, argTest, argRes, h]
    · simp [argArms, argArmsRun, argTest, argRes, h]

/-- **CollectTie_taskId.** The id selection of `_generate_ids_for_tasks` (explicit id, then no parameters, else the
argument values) computes the model's `taskId`. -/
theorem CollectTie_taskId (w : World) (params : List String) (name : String) (i : Nat) (o : ObjId) :
    taskIdGen w params name i o = taskId w params name i o := by
  unfold taskIdGen taskId
  cases w.heap.lookup o with
  | none => rfl
  | some f =>
    simp only [idArms, idArmsRun]
    cases f.metaId with
    | some s => rfl
    | none =>
      simp only
      by_cases hp : params.isEmpty = true
      · simp [hp]
      · simp only [hp, Bool.false_eq_true, ↓reduceIte]
        congr 2
        exact List.map_congr_left (fun p _ => CollectTie_argToId p (kwargOf f p) i)

/-- **CollectTie_genLoop.** The loop of `_generate_ids_for_tasks` — `if id_ in out: raise`, `out[id_] = task` — is the
model's `genLoop`, for every start index and accumulator. -/
theorem CollectTie_genLoop (w : World) (params : List String) : ∀ (sel : List (String × ObjId)) (i : Nat) (out : Dict),
    genLoopGen w params i sel out = genLoop w params i sel out := by
  intro sel
  induction sel with
  | nil => intro i out; rfl
  | cons x rest ih =>
    intro i out
    obtain ⟨name, o⟩ := x
    unfold genLoopGen genLoop
    simp only [idDupRaises, Bool.true_and, CollectTie_taskId]
    by_cases h : out.any (fun e => e.1 == taskId w params name i o) = true
    · simp [h]
    · simp only [h, Bool.false_eq_true, ↓reduceIte]
      have hk : taskId w params name i o ∉ out.map Prod.fst := by
        intro hm
        obtain ⟨e, he, hek⟩ := List.mem_map.1 hm
        exact h (List.any_eq_true.2 ⟨e, he, by simp [hek]⟩)
      rw [dictSet_fresh out _ o hk]
      exact ih (i + 1) _

theorem generateIdsGen_eq (w : World) (sel : List (String × ObjId)) : generateIdsGen w sel = generateIds w sel :=
  CollectTie_genLoop w _ sel 0 []

/-- **CollectTie_parseStep.** One iteration of the loop of `parse_collected_tasks_with_task_marker` as read from the
source — generate ids for a repeated name, else take the single function, raise on a key clash, update — is the
model's `parseStep`. -/
theorem CollectTie_parseStep (w : World) (parsed : List (String × ObjId)) (acc : Option Dict) (name : String) :
    parseStepGen w parsed acc name = parseStep w parsed acc name := by
  unfold parseStepGen parseStep
  cases acc with
  | none => rfl
  | some d =>
    simp only [parseLoop, List.foldl_cons, List.foldl_nil, parseStepRun, contribution, generateIdsGen_eq,
      Generated.parseClashCheck, Bool.true_and, Bool.false_eq_true, ↓reduceIte]
    by_cases h2 : 2 ≤ (parsed.filter (fun e => e.1 == name)).length
    · simp only [h2, decide_true, ↓reduceIte]
      cases hg : generateIds w (parsed.filter (fun e => e.1 == name)) with
      | none => simp
      | some c =>
        simp only [Bool.false_eq_true, ↓reduceIte]
        by_cases hc : clashes d c = true
        · simp [hc]
        · simp [hc]
    · simp only [h2, decide_false, Bool.false_eq_true, ↓reduceIte]
      cases hs : parsed.filter (fun e => e.1 == name) with
      | nil =>
        by_cases hc : clashes d [] = true
        · simp [hc]
        · simp [hc]
      | cons x rest =>
        by_cases hc : clashes d [(name, x.2)] = true
        · simp [hc]
        · simp [hc]

/-- **CollectTie_parseCollected.** Hence the whole function, for every iteration order of `all_names`. -/
theorem CollectTie_parseCollected (enum : List String → List String) (w : World) (tasks : List ObjId) :
    parseCollectedGen enum w tasks = parseCollected enum w tasks := by
  unfold parseCollectedGen parseCollected
  have : parseStepGen w (tasks.map (fun o => (metaNameOf w o, o))) = parseStep w (tasks.map (fun o => (metaNameOf w o, o))) := by
    funext acc name
    exact CollectTie_parseStep w _ acc name
  rw [this]

/-! ### module names and `import_path` -/

/-- **CollectTie_pathKey.** The statements of `_module_name_from_path` in source order — strip the suffix, make the
path relative to the root (else keep all parts), drop a trailing `__init__` of at least two parts, normalise every part
with the extracted table, join with `.` — compute the model's `pathKey`. -/
theorem CollectTie_pathKey (root path : Path) : pathKeyGen root path = pathKey root path := by
  unfold pathKeyGen pathKey relStem
  simp only [modNameSteps, List.foldl_cons, List.foldl_nil, modStep]

/-- **CollectTie_importPath.** The statements of `import_path` in source order — package name, cache look-up under it,
`_import_module_using_spec` (searching the package root), the name derived from the path, cache look-up under it,
`spec_from_file_location`, `ImportError` without loader, execution, `_insert_missing_modules` — compute the model's
`importPath` for every world and path (this is the structure finding F12 lives in: both cache look-ups return whatever
module is registered under the name). -/
theorem CollectTie_importPath (env : Env) (w : World) (path : Path) :
    importPathGen env w path = importPath env w path := by
  unfold importPathGen importPath importByPath
  simp only [importSteps, List.foldl_cons, List.foldl_nil]
  cases hpk : pkgTop env.fs path with
  | none =>
    cases hl : w.modules.lookup (pathKey env.cfg.root path) with
    | some m => simp [importStep, hpk, hl]
    | none =>
      by_cases hs : isPySource path = true
      · simp [importStep, hpk, hl, hs]
      · simp [importStep, hpk, hl, hs]
  | some pkg =>
    cases hl : w.modules.lookup (pkgKey pkg.dropLast path) with
    | some m => simp [importStep, hpk, hl]
    | none =>
      cases hf : findSpecIn env.fs pkg.dropLast ((pkgKey pkg.dropLast path).getLast?.getD "") with
      | file p => simp [importStep, hpk, hl, hf]
      | «namespace» => simp [importStep, hpk, hl, hf]
      | notFound =>
        by_cases hs : isPySource path = true
        · simp [importStep, hpk, hl, hf, hs]
        · cases hl2 : w.modules.lookup (pathKey env.cfg.root path) with
          | some m => simp [importStep, hpk, hl, hf, hs, hl2]
          | none => simp [importStep, hpk, hl, hf, hs, hl2]

/-! ### `pytask_collect` and the short names -/

/-- **CollectTie_collectReports.** The statements of `pytask_collect` before `session.tasks` is filled — paths,
programmatic tasks, left-over registered functions, the duplicate-signature pass, in this order — produce the model's
`collectReports`. -/
theorem CollectTie_collectReports (env : Env) (enum : List String → List String) :
    collectReportsGen env enum = collectReports env enum := by
  unfold collectReportsGen collectReports rawReports
  simp [collectSteps, stepsBeforeExtend, collectStepRun, Generated.collectDupSignaturePass]

/-- **CollectTie_shortNames.** Every collected `Task` enters `id_to_task`, whether or not it has been given a short
name before (the hook runs again when a task generator adds tasks): the filter read from the source lets every task
through, so the names are always recomputed over all tasks. -/
theorem CollectTie_shortNames (tasks : List (TKey × Bool)) : shortNamesGen tasks = shortNames (tasks.map (·.1)) := by
  unfold shortNamesGen
  have : tasks.filter (fun t => entersShortening t.2) = tasks := by
    apply List.filter_eq_self.2
    intro t _
    simp [entersShortening, shortFilter, shortFilterRun]
  rw [this]

/-- Non-vacuity: the interpreters run (the walk dedups a repeated path; ids from bool / other arguments). -/
example : notIgnoredPathsGen { pre := ["r"], tree := .dir "p" [.file "task_a.py", .dir "sub" [.file "task_b.py"]] } (fun _ => false)
    [["r", "p"], ["r", "p", "sub"], ["r", "p"]] = [["r", "p", "task_a.py"], ["r", "p", "sub", "task_b.py"]] := by decide
example : argToIdGen "x" (some (Val.bool true)) 3 = "True" ∧ argToIdGen "x" (some Val.other) 3 = "x3" ∧ argToIdGen "x" none 0 = "x0" := by decide
example : pathKeyGen ["r"] ["r", "x.y", "__init__.py"] = ["x_y"] ∧ pathKeyGen ["r"] ["q", "a-b", "task_t.py"] = ["q", "a-b", "task_t"] := by decide

end Pytask
