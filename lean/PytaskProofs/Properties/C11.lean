import PytaskModel.Clean
/-!
# C11 — 'pytask clean' only ever removes files pytask does not know
-/
namespace Pytask.Clean

/-- **clean_dry.** In dry-run mode the file tree is unchanged, whatever is listed. -/
theorem C11_clean_dry (quiet : Bool) (yes : Path → Bool) (s : Session) (fs : FTree) :
    (clean .dryRun quiet yes s fs).2 = fs := by
  unfold clean
  generalize unknownPaths s fs = l
  induction l with
  | nil => rfl
  | cons p ps ih => simpa [cleanLoop] using ih

end Pytask.Clean
