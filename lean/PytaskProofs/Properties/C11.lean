import PytaskProofs.Lemmas.Clean
/-!
# C11 — 'pytask clean' only ever removes files pytask does not know

Property theorems only (model M8, `PytaskModel/Clean.lean`). `fs` is the directory `/`; `WF fs` says that the
names inside every directory are unique (any real file system). `p <+: q` reads "q is p or lies below p": a path
is *covered* by the listing when a listed path is a prefix of it — `shutil.rmtree` removes everything below a
listed directory. In the structural theorems `known` and `excl` are arbitrary predicates on paths.
-/
namespace Pytask.Clean

/-! ## the listing (`_find_all_unknown_paths`) -/

/-- **listed_inside.** Every path `pytask clean` lists lies at or below one of the given paths: nothing outside
the given paths is offered or removed. -/
theorem C11_listed_inside {fs : FTree} (hwf : WF fs) (known excl : Path → Bool) (roots : List Path) (d : Bool)
    (p : Path) (hp : p ∈ findAllUnknown fs known excl roots d) : ∃ r ∈ roots, r <+: p := by
  obtain ⟨r, hr, rel, _, hpe, _⟩ := findAllUnknown_spec hwf known excl roots d hp
  exact ⟨r, hr, rel, hpe.symm⟩

/-- Every listed path exists in the tree. -/
theorem C11_listed_exists {fs : FTree} (hwf : WF fs) (known excl : Path → Bool) (roots : List Path) (d : Bool)
    (p : Path) (hp : p ∈ findAllUnknown fs known excl roots d) : (subtree fs p).isSome = true := by
  obtain ⟨_, _, _, s, _, hs, _⟩ := findAllUnknown_spec hwf known excl roots d hp
  simp [hs]

/-- **listed_file.** A listed file is neither in `known_paths` nor matched by an exclude pattern. -/
theorem C11_listed_file {fs : FTree} (hwf : WF fs) (known excl : Path → Bool) (roots : List Path) (d : Bool)
    (p : Path) (hp : p ∈ findAllUnknown fs known excl roots d) (n : Name) (hf : subtree fs p = some (.file n)) :
    known p = false ∧ excl p = false := by
  have := covered_safe hwf known excl roots d hp (List.prefix_refl p) hf
  exact ⟨this.2 rfl, this.1⟩

/-- **listed_dir.** A directory is listed only with `--directories`, is itself not excluded, and everything that
exists below it is not excluded and, if a file, not known: `rmtree` on a listed directory deletes only unknown,
non-excluded things. -/
theorem C11_listed_dir {fs : FTree} (hwf : WF fs) (known excl : Path → Bool) (roots : List Path) (d : Bool)
    (p : Path) (hp : p ∈ findAllUnknown fs known excl roots d) (n : Name) (cs : List FTree)
    (hdir : subtree fs p = some (.dir n cs)) :
    d = true ∧ excl p = false ∧
      ∀ rel s, subtree fs (p ++ rel) = some s → excl (p ++ rel) = false ∧ (s.isDir = false → known (p ++ rel) = false) := by
  obtain ⟨_, _, _, s, _, hs, _, _, hd⟩ := findAllUnknown_spec hwf known excl roots d hp
  rw [hdir] at hs; cases hs
  refine ⟨(hd rfl).1, (covered_safe hwf known excl roots d hp (List.prefix_refl p) hdir).1, ?_⟩
  intro rel s hs
  exact covered_safe hwf known excl roots d hp (List.prefix_append p rel) hs

/-- Without `--directories` only files are listed. -/
theorem C11_files_only {fs : FTree} (hwf : WF fs) (known excl : Path → Bool) (roots : List Path)
    (p : Path) (hp : p ∈ findAllUnknown fs known excl roots false) : ∃ n, subtree fs p = some (.file n) := by
  obtain ⟨_, _, _, s, _, hs, _, _, hd⟩ := findAllUnknown_spec hwf known excl roots false hp
  cases s with
  | file n => exact ⟨n, hs⟩
  | dir n cs => exact absurd (hd rfl).1 (by simp)

/-- **Nothing protected is covered.** If something exists at `q` and `q` is excluded, or is a known file, then no
listed path is `q` or an ancestor of `q`: it is neither offered nor removed as part of an offered directory. -/
theorem C11_protected_not_covered {fs : FTree} (hwf : WF fs) (known excl : Path → Bool) (roots : List Path)
    (d : Bool) (q : Path) (sq : FTree) (hq : subtree fs q = some sq)
    (hprot : excl q = true ∨ (sq.isDir = false ∧ known q = true)) :
    ∀ p ∈ findAllUnknown fs known excl roots d, ¬ p <+: q := by
  intro p hp hpq
  have := covered_safe hwf known excl roots d hp hpq hq
  rcases hprot with h | ⟨h1, h2⟩
  · rw [this.1] at h; cases h
  · rw [this.2 h1] at h2; cases h2

/-- **below_excluded.** If the entry `e` is excluded then `e` and everything below it is neither listed nor inside a
listed directory — provided none of the given paths lies strictly below `e` (a path given explicitly is walked
from there; its ancestors are not looked at). -/
theorem C11_below_excluded {fs : FTree} (hwf : WF fs) (known excl : Path → Bool) (roots : List Path) (d : Bool)
    (e : Path) (se : FTree) (he : subtree fs e = some se) (hex : excl e = true)
    (hroots : ∀ r ∈ roots, e <+: r → r = e) (q : Path) (heq : e <+: q) :
    ∀ p ∈ findAllUnknown fs known excl roots d, ¬ p <+: q := by
  intro p hp hpq
  rcases List.prefix_or_prefix_of_prefix hpq heq with hpe | hep
  · have := (covered_safe hwf known excl roots d hp hpe he).1
    rw [this] at hex; cases hex
  · obtain ⟨r, hr, rel, _, hpe, _, hpre, _⟩ := findAllUnknown_spec hwf known excl roots d hp
    have hrp : r <+: p := ⟨rel, hpe.symm⟩
    rcases List.prefix_or_prefix_of_prefix hrp hep with hre | her
    · obtain ⟨y, rfl⟩ := hre
      have hy : y <+: rel := by
        rw [hpe] at hep; exact (List.prefix_append_right_inj r).1 hep
      have := hpre y.length
      rw [← List.prefix_iff_eq_take.1 hy, hex] at this; cases this
    · have := hroots r hr her
      subst this
      have := hpre 0
      simp only [List.take_zero, List.append_nil] at this
      rw [this] at hex; cases hex

/-! ## the command (`clean.py:132-153`) -/

/-- **clean_dry.** In dry-run mode the file tree is unchanged and exactly the unknown paths are printed. -/
theorem C11_clean_dry (quiet : Bool) (yes : Path → Bool) (s : Session) (fs : FTree) :
    (clean .dryRun quiet yes s fs).2 = fs ∧
    (clean .dryRun quiet yes s fs).1 = (unknownPaths s fs).map .would := by
  unfold clean
  exact ⟨by simp [cleanLoop_fs, removedBy], cleanLoop_dry_events _ _ _ _⟩

/-- **clean_force.** Force mode prints a "Remove" line for exactly the paths dry-run mode lists, in the same order,
and afterwards the tree is the old tree minus the listed paths and everything below them: something is at `q`
afterwards iff it was there before and no listed path is `q` or an ancestor of `q`; kinds are unchanged.
(`[] ∉ paths`: the file-system root is not among the given paths.) -/
theorem C11_clean_force (yes : Path → Bool) (s : Session) (fs : FTree) (hwf : WF fs) (hroot : [] ∉ s.paths) :
    (clean .force false yes s fs).1 = (unknownPaths s fs).map .removed ∧
    (clean .force false yes s fs).1.map (fun | .removed p => p | .would p => p | .asked p => p)
      = (clean .dryRun false yes s fs).1.map (fun | .removed p => p | .would p => p | .asked p => p) ∧
    ∀ q, kindAt (clean .force false yes s fs).2 q =
      if ∃ p ∈ unknownPaths s fs, p <+: q then none else kindAt fs q := by
  have hne : ∀ p ∈ unknownPaths s fs, p ≠ [] := by
    intro p hp e
    obtain ⟨r, hr, hrp⟩ := C11_listed_inside hwf _ _ _ _ p hp
    subst e
    have : r = [] := List.prefix_nil.1 hrp
    exact hroot (this ▸ hr)
  refine ⟨cleanLoop_force_events _ _ _, ?_, ?_⟩
  · unfold clean
    rw [cleanLoop_force_events, cleanLoop_dry_events]
    simp [List.map_map, Function.comp_def]
  · intro q
    unfold clean
    rw [cleanLoop_fs]
    exact kindAt_foldl_removeAt _ hne fs q

/-- Interactive mode removes exactly the confirmed ones among the listed paths. -/
theorem C11_clean_interactive (quiet : Bool) (yes : Path → Bool) (s : Session) (fs : FTree) (hwf : WF fs)
    (hroot : [] ∉ s.paths) (q : Path) :
    kindAt (clean .interactive quiet yes s fs).2 q =
      if ∃ p ∈ (unknownPaths s fs).filter yes, p <+: q then none else kindAt fs q := by
  have hne : ∀ p ∈ (unknownPaths s fs).filter yes, p ≠ [] := by
    intro p hp e
    obtain ⟨r, hr, hrp⟩ := C11_listed_inside hwf _ _ _ _ p (List.mem_filter.1 hp).1
    subst e
    exact hroot ((List.prefix_nil.1 hrp) ▸ hr)
  unfold clean
  rw [cleanLoop_fs]
  exact kindAt_foldl_removeAt _ hne fs q

/-- In every mode, what is not covered by the listing survives. -/
theorem C11_uncovered_survives (mode : Mode) (quiet : Bool) (yes : Path → Bool) (s : Session) (fs : FTree)
    (hwf : WF fs) (hroot : [] ∉ s.paths) (q : Path) (hq : ¬ ∃ p ∈ unknownPaths s fs, p <+: q) :
    kindAt (clean mode quiet yes s fs).2 q = kindAt fs q := by
  have hne : ∀ p ∈ removedBy mode yes (unknownPaths s fs), p ∈ unknownPaths s fs := by
    intro p hp
    cases mode with
    | dryRun => simp [removedBy] at hp
    | force => exact hp
    | interactive => exact (List.mem_filter.1 hp).1
  have hne' : ∀ p ∈ removedBy mode yes (unknownPaths s fs), p ≠ [] := by
    intro p hp e
    obtain ⟨r, hr, hrp⟩ := C11_listed_inside hwf _ _ _ _ p (hne p hp)
    subst e
    exact hroot ((List.prefix_nil.1 hrp) ▸ hr)
  unfold clean
  rw [cleanLoop_fs, kindAt_foldl_removeAt _ hne' fs q, if_neg]
  rintro ⟨p, hp, hpq⟩
  exact hq ⟨p, hne p hp, hpq⟩

/-! ## what is known (`_collect_all_paths_known_to_pytask`) -/

/-- What the property calls protected, as far as `known_paths` is concerned: task modules, declared path
dependencies and products, what a declared `DirectoryNode` resolves to, the configuration file, and files tracked
by git below the project root (the given paths always lie below the root). -/
def SpecProtected (s : Session) (p : Path) : Prop :=
  p ∈ s.taskPaths ∨ p ∈ s.nodePaths ∨ p ∈ s.provisionalPaths ∨ s.config = some p ∨
  (s.git.installed = true ∧ ∃ top rel, s.git.top = some top ∧ top <+: s.root ∧ rel ∈ s.git.tracked ∧
    p = top ++ rel ∧ s.root <+: p)

/-- **known_covers_full** — the property at full strength: everything the specification protects is in `known_paths`. -/
def C11_known_covers_full : Prop := ∀ (s : Session) (p : Path), SpecProtected s p → isKnown s p = true

/-- F9 witness: repository at `/p`, project root `/p/sub`, tracked file `/p/sub/data/tracked.txt`. -/
def witnessF9 : Session :=
  { root := ["p".toList, "sub".toList], config := some ["p".toList, "sub".toList, "pyproject.toml".toList],
    paths := [["p".toList, "sub".toList]], taskPaths := [], nodePaths := [], userExclude := [], directories := false,
    git := { installed := true, top := some ["p".toList],
             tracked := [["sub".toList, "data".toList, "tracked.txt".toList]] } }

/-- F16 witness: a task whose dependency is `DirectoryNode(root_dir="/r/data", pattern="*.csv")`. -/
def witnessF16 : Session :=
  { root := ["r".toList], config := none, paths := [["r".toList]], taskPaths := [["r".toList, "task_dn.py".toList]],
    nodePaths := [], provisionalPaths := [["r".toList, "data".toList, "u1.csv".toList]], userExclude := [],
    directories := false, git := { installed := false, top := none, tracked := [] } }

/-- the former F16 witness is now known -/
example : isKnown witnessF16 ["r".toList, "data".toList, "u1.csv".toList] = true := by decide

/-- **known_covers_full holds**: everything the specification protects is in `known_paths`. -/
theorem C11_known_covers_full_holds : C11_known_covers_full := by
  intro s p h
  unfold isKnown
  rw [List.contains_iff_mem]
  unfold knownPaths
  rcases h with h | h | h | h | ⟨hi, top, rel, ht, ⟨dd, hroot⟩, hrel, rfl, hpre⟩
  · simp [h]
  · simp [h]
  · simp [h, Generated.cleanKnowsProvisional]
  · simp [h]
  · have hd : dd <+: rel := by
      rw [← hroot] at hpre; exact (List.prefix_append_right_inj top).1 hpre
    obtain ⟨rel', rfl⟩ := hd
    have : top ++ (dd ++ rel') ∈ gitKnown s := by
      have e1 : (Generated.gitLsFilesCwd == "git_root") = false := by decide
      have e2 : (Generated.gitJoinBase == "root") = true := by decide
      have e3 : Generated.gitLsFilesFullName = false := rfl
      unfold gitKnown lsFiles gitRoot
      simp only [hi, ht, ↓reduceIte, e1, e2, e3, Bool.false_eq_true, ← hroot, List.drop_left', List.length_append]
      apply List.mem_append_left
      simp only [List.mem_map, List.mem_filter]
      refine ⟨rel', ⟨dd ++ rel', ⟨hrel, by simp⟩, by simp⟩, by simp⟩
    simp [this]

/-- Kept under its old name: the protected paths of the specification. -/
abbrev SpecProtectedPartial := SpecProtected

theorem C11_known_covers_partial (s : Session) (p : Path) (h : SpecProtectedPartial s p) : isKnown s p = true :=
  C11_known_covers_full_holds s p h

/-- **Composition.** A file that exists and is a task module, a declared path node, the configuration file, tracked
by git (root = repository top) or matched by an exclude pattern — from the command line / configuration file, or
the built-in `.git/*` and `<root>/.pytask/*` — is never offered and never inside an offered directory. -/
theorem C11_never_offered_partial (s : Session) (fs : FTree) (hwf : WF fs) (q : Path) (n : Name)
    (hq : subtree fs q = some (.file n))
    (hprot : SpecProtectedPartial s q ∨ ∃ pat ∈ configExclude s.root s.userExclude, pmatch q pat = true) :
    ∀ p ∈ unknownPaths s fs, ¬ p <+: q := by
  apply C11_protected_not_covered hwf _ _ _ _ q _ hq
  rcases hprot with h | ⟨pat, hpat, hm⟩
  · exact Or.inr ⟨rfl, C11_known_covers_partial s q h⟩
  · exact Or.inl (by simp only [isExcluded, List.any_eq_true]; exact ⟨pat, hpat, hm⟩)

/-- The user's exclude patterns are part of the effective ones (`to_list(config["exclude"]) + …`). -/
theorem C11_user_exclude_effective (s : Session) (pat : Pattern) (h : pat ∈ s.userExclude) :
    pat ∈ configExclude s.root s.userExclude := by
  simp [configExclude, Generated.cleanExcludeOrder, excludeSummand, h]

/-! ## the cache folder -/

/-- **pytask_dir_safe.** Whatever exists below `<root>/.pytask` is never listed and never inside a listed directory,
in any file tree, with any exclude patterns, with and without `--directories` — provided the components of the
root path contain no `*`, `?`, `[` (the exclude pattern is built from the root path with `as_posix()`) and none of
the given paths lies strictly inside an entry of `.pytask`. -/
theorem C11_pytask_dir_safe (s : Session) (fs : FTree) (hwf : WF fs) (hplain : ∀ n ∈ s.root, PlainName n)
    (x : Name) (hx : CompName x) (se : FTree)
    (he : subtree fs (s.root ++ [Generated.cleanCacheDir.toList, x]) = some se)
    (hpaths : ∀ r ∈ s.paths, (s.root ++ [Generated.cleanCacheDir.toList, x]) <+: r →
      r = s.root ++ [Generated.cleanCacheDir.toList, x])
    (q : Path) (hq : (s.root ++ [Generated.cleanCacheDir.toList, x]) <+: q) :
    ∀ p ∈ unknownPaths s fs, ¬ p <+: q := by
  apply C11_below_excluded hwf _ _ _ _ _ se he _ hpaths q hq
  simp only [isExcluded, List.any_eq_true]
  refine ⟨asPosix (s.root ++ [".pytask".toList, ['*']]), ?_, ?_⟩
  · simp [configExclude, Generated.cleanExcludeOrder, excludeSummand, Generated.cleanRootExcludeTemplate]
  · have hd : ∀ n ∈ s.root ++ [".pytask".toList], PlainName n := by
      intro n hn
      rcases List.mem_append.1 hn with h | h
      · exact hplain n h
      · simp only [List.mem_singleton] at h; subst h
        have := plainName_cacheDir
        rwa [show Generated.cleanCacheDir.toList = ".pytask".toList by decide] at this
    have := pmatch_dir_star (s.root ++ [".pytask".toList]) hd x hx
    have e1 : Generated.cleanCacheDir.toList = ".pytask".toList := by decide
    simpa [e1] using this

/-- `<root>/.pytask` itself is not offered either as soon as it contains anything (pytask creates
`.pytask/.gitignore` at configuration time). -/
theorem C11_pytask_dir_kept (s : Session) (fs : FTree) (hwf : WF fs) (hplain : ∀ n ∈ s.root, PlainName n)
    (x : Name) (hx : CompName x) (se : FTree)
    (he : subtree fs (s.root ++ [Generated.cleanCacheDir.toList, x]) = some se) :
    s.root ++ [Generated.cleanCacheDir.toList] ∉ unknownPaths s fs := by
  intro hp
  have hpre : (s.root ++ [Generated.cleanCacheDir.toList]) <+: (s.root ++ [Generated.cleanCacheDir.toList, x]) :=
    ⟨[x], by simp⟩
  have h1 := (covered_safe hwf _ _ _ _ hp hpre he).1
  have hd : ∀ n ∈ s.root ++ [".pytask".toList], PlainName n := by
    intro n hn
    rcases List.mem_append.1 hn with h | h
    · exact hplain n h
    · simp only [List.mem_singleton] at h; subst h
      have := plainName_cacheDir
      rwa [show Generated.cleanCacheDir.toList = ".pytask".toList by decide] at this
  have hm := pmatch_dir_star (s.root ++ [".pytask".toList]) hd x hx
  have e1 : Generated.cleanCacheDir.toList = ".pytask".toList := by decide
  have : isExcluded s (s.root ++ [Generated.cleanCacheDir.toList, x]) = true := by
    simp only [isExcluded, List.any_eq_true]
    refine ⟨asPosix (s.root ++ [".pytask".toList, ['*']]), ?_, by simpa [e1] using hm⟩
    simp [configExclude, Generated.cleanExcludeOrder, excludeSummand, Generated.cleanRootExcludeTemplate]
  rw [this] at h1; cases h1

/-! ## the project root (`config_utils.find_project_root_and_config`) -/

/-- **root_at_checkout.** The upward search for the project root stops at a directory that has an entry `.git` —
a directory, or a *file* as in a linked worktree, a submodule or a `--separate-git-dir` checkout — unless that
directory has its own pyproject.toml with a pytask section (then it is the root as well, with that configuration):
the root never moves above the checkout, so `git ls-files` is asked inside it. -/
theorem C11_root_at_checkout (fs : FTree) (hasSection : Path → Bool) (d : Path) (n : Name) (cs : List FTree)
    (hd : subtree fs d = some (.dir n cs)) (hgit : (subtree fs (d ++ [".git".toList])).isSome = true) :
    (findRoot fs hasSection d).1 = d := by
  obtain ⟨g, hg⟩ := Option.isSome_iff_exists.1 hgit
  unfold findRoot
  simp only [hd, searchUp, stopAt_rules, stopAt_two, hg]
  cases subtree fs (d ++ ["pyproject.toml".toList]) with
  | none => rfl
  | some c => cases hasSection (d ++ ["pyproject.toml".toList]) <;> rfl

/-- A pyproject.toml with a pytask section makes its directory the root and is the configuration file. -/
theorem C11_root_at_config (fs : FTree) (hasSection : Path → Bool) (d : Path) (n : Name) (cs : List FTree) (c : FTree)
    (hd : subtree fs d = some (.dir n cs)) (hc : subtree fs (d ++ ["pyproject.toml".toList]) = some c)
    (hs : hasSection (d ++ ["pyproject.toml".toList]) = true) :
    findRoot fs hasSection d = (d, some (d ++ ["pyproject.toml".toList])) := by
  unfold findRoot
  simp only [hd, searchUp, stopAt_rules, stopAt_two, hc, hs]
  rfl

/-- **config_needs_ini_options.** A pyproject.toml is the pytask configuration exactly when it contains the table
`tool.pytask.ini_options` (or a table below it). `[tool.pytask]` alone, a plugin's table `[tool.pytask.<plugin>]`
or other tools' tables do not make it one: the upward search passes it and the parent's configuration — with its
exclude patterns — applies. -/
theorem C11_config_needs_ini_options (tables : List (Path × List String)) (cfg : Path) :
    configSectionPresent tables cfg = true ↔ ∃ t ∈ tables, t.1 = cfg ∧ ["tool", "pytask", "ini_options"] <+: t.2 := by
  unfold configSectionPresent
  simp only [List.any_eq_true, Bool.and_eq_true, beq_iff_eq, Generated.configSection, List.isPrefixOf_iff_prefix]

/-! ## the property end to end, and non-vacuity -/

/-- **The property at full strength** for `known_paths`-protected files: no existing file that the specification
protects is offered or lies inside an offered directory. -/
def C11_never_offered_full : Prop :=
  ∀ (s : Session) (fs : FTree), WF fs → ∀ (q : Path) (n : Name), subtree fs q = some (.file n) → SpecProtected s q →
    ∀ p ∈ unknownPaths s fs, ¬ p <+: q

/-- **The property at full strength holds**: no existing file that the specification protects is offered or lies
inside an offered directory. -/
theorem C11_never_offered_full_holds : C11_never_offered_full := by
  intro s fs hwf q n hq hprot
  exact C11_never_offered_partial s fs hwf q n hq (Or.inl hprot)

/-- A project: task module, declared dependency, a tracked file, junk, a build directory with only junk, a log
file excluded by `-e "*.log"`, the cache folder; repository top = project root. -/
def exFs : FTree :=
  .dir [] [.dir "r".toList [
    .file "task_a.py".toList, .file "in.txt".toList, .file "tracked.md".toList, .file "junk.txt".toList,
    .file "keep.log".toList,
    .dir "bld".toList [.file "x.o".toList, .dir "deep".toList []],
    .dir "src".toList [.file "helper.py".toList, .file "junk2.txt".toList],
    .dir ".pytask".toList [.file ".gitignore".toList, .dir "cache".toList [.file "db".toList]],
    .dir ".git".toList [.file "HEAD".toList]]]

def exS : Session :=
  { root := ["r".toList], config := none, paths := [["r".toList]],
    taskPaths := [["r".toList, "task_a.py".toList]], nodePaths := [["r".toList, "in.txt".toList]],
    userExclude := ["*.log".toList], directories := true,
    git := { installed := true, top := some ["r".toList],
             tracked := [["tracked.md".toList], ["src".toList, "helper.py".toList]] } }

/-- Non-vacuity: the tree is well-formed, the listing is non-empty and contains a file and a whole directory while
protected files of every category exist next to them. -/
example : WF exFs := wfB_sound _ (by decide)
example : unknownPaths exS exFs =
    [["r".toList, "junk.txt".toList], ["r".toList, "bld".toList], ["r".toList, "src".toList, "junk2.txt".toList]] := by
  decide
/-- hypotheses of `C11_listed_dir` / `C11_listed_file` on the example -/
example : subtree exFs ["r".toList, "bld".toList] = some (.dir "bld".toList [.file "x.o".toList, .dir "deep".toList []]) := by
  rfl
example : subtree exFs ["r".toList, "junk.txt".toList] = some (.file "junk.txt".toList) := by rfl
/-- hypotheses of `C11_never_offered_partial`: a tracked file with root = top, and an exclude match -/
example : SpecProtectedPartial exS ["r".toList, "src".toList, "helper.py".toList] :=
  Or.inr (Or.inr (Or.inr (Or.inr ⟨rfl, ["r".toList], ["src".toList, "helper.py".toList], rfl, by decide, by decide, by decide, by decide⟩)))
/-- the former F9 witness is now protected -/
example : SpecProtectedPartial witnessF9 ["p".toList, "sub".toList, "data".toList, "tracked.txt".toList] :=
  Or.inr (Or.inr (Or.inr (Or.inr ⟨rfl, ["p".toList], ["sub".toList, "data".toList, "tracked.txt".toList], rfl, by decide, by decide, by decide, by decide⟩)))
example : ∃ pat ∈ configExclude exS.root exS.userExclude, pmatch ["r".toList, "keep.log".toList] pat = true :=
  ⟨"*.log".toList, by decide, by decide⟩
/-- hypotheses of `C11_pytask_dir_safe` / `C11_below_excluded` -/
example : (∀ n ∈ exS.root, PlainName n) ∧ CompName "cache".toList ∧
    subtree exFs (exS.root ++ [Generated.cleanCacheDir.toList, "cache".toList]) = some (.dir "cache".toList [.file "db".toList]) ∧
    (∀ r ∈ exS.paths, (exS.root ++ [Generated.cleanCacheDir.toList, "cache".toList]) <+: r →
      r = exS.root ++ [Generated.cleanCacheDir.toList, "cache".toList]) := by
  refine ⟨by decide, ⟨by decide, by decide⟩, by rfl, by decide⟩
/-- `C11_clean_force` on the example: the three listed entries (one with its contents) are gone, the rest stays. -/
example : [] ∉ exS.paths := by decide
example : entries [] (clean .force false (fun _ => false) exS exFs).2 =
    (entries [] exFs).filter (fun e => !(unknownPaths exS exFs).any (·.isPrefixOf e.1)) := by decide
example : (entries [] (clean .force false (fun _ => false) exS exFs).2).length + 5 = (entries [] exFs).length := by decide
/-- `pmatch` is not trivial: quirks of CPython 3.12 reproduced. -/
example : pmatch ["a".toList, "b".toList] "a[!a]b".toList = true := by decide
example : pmatch ["a".toList, "c".toList] "*[!x]*c".toList = false := by decide
example : pmatch ["a".toList, "b.txt".toList] "*.txt".toList = true ∧ pmatch ["a".toList, "b.txt".toList] "/*.txt".toList = false := by
  decide

/-- `C11_root_at_checkout` on a linked worktree `/g/w` (its `.git` is a file) inside the repository `/g`, without own
configuration while `/g` is a pytask project: the root is `/g/w`, not `/g`. -/
def fsLinked : FTree :=
  .dir [] [.dir "g".toList [.dir ".git".toList [.file "HEAD".toList], .file "pyproject.toml".toList,
    .dir "w".toList [.file ".git".toList, .file "tracked.txt".toList]]]
example : findRoot fsLinked (fun p => p == ["g".toList, "pyproject.toml".toList]) ["g".toList, "w".toList] = (["g".toList, "w".toList], none) := by
  decide
example : findRoot fsLinked (fun p => p == ["g".toList, "pyproject.toml".toList]) ["g".toList] =
    (["g".toList], some ["g".toList, "pyproject.toml".toList]) := by decide

/-- A mono-repo: `/m/pyproject.toml` has `[tool.pytask.ini_options]`, the sub-package's `/m/pkg/pyproject.toml` only
`[tool.pytask]` and `[tool.pytask.someplugin]`: cleaning `/m/pkg` uses `/m` as root and the parent's file as configuration. -/
def fsMono : FTree :=
  .dir [] [.dir "m".toList [.file "pyproject.toml".toList,
    .dir "pkg".toList [.file "pyproject.toml".toList, .file "keep.txt".toList]]]
def monoTables : List (Path × List String) :=
  [(["m".toList, "pyproject.toml".toList], ["tool"]), (["m".toList, "pyproject.toml".toList], ["tool", "pytask"]),
   (["m".toList, "pyproject.toml".toList], ["tool", "pytask", "ini_options"]),
   (["m".toList, "pkg".toList, "pyproject.toml".toList], ["tool"]), (["m".toList, "pkg".toList, "pyproject.toml".toList], ["tool", "pytask"]),
   (["m".toList, "pkg".toList, "pyproject.toml".toList], ["tool", "pytask", "someplugin"])]
example : findRoot fsMono (configSectionPresent monoTables) ["m".toList, "pkg".toList] =
    (["m".toList], some ["m".toList, "pyproject.toml".toList]) := by decide

end Pytask.Clean
