-- TIE-PROPS: C11
-- TIE-SECTION: extract_clean
import PytaskProofs.Lemmas.CleanGenRefines
/-!
# CleanTie — the hand-written model M8 of `pytask clean` equals the command computed from the source

`Clean.lean` (the model under the theorems of C11) writes out by hand what `_RecursivePathNode.from_path`, the listing,
`_collect_all_paths_known_to_pytask` / `_yield_paths_from_task` and the loop of `clean` do. `harness/extract_cleangen.py`
reads the control structure of the same functions from the tree under check into `Generated.Cln.*` (Boolean expression
trees over `is_file`, `is_dir`, `path in known_paths`, "an exclude pattern matches", quantifiers over the sub nodes with
their filters; the if/elif chain over node classes; what the loop does in each mode), `CleanGen.lean` interprets that
data, and the theorems below say that **for all arguments** the interpreters return what the hand-written definitions
return. Each proof evaluates a decidable check of the *meaning* of the generated term on all assignments of its atoms
(`by decide`) and applies a soundness theorem proved once for every term. Hence an equivalent rewriting of the Python
source keeps this module compiling, while a change of meaning — another quantifier or a filter in
`all(node.is_unknown for node in sub_nodes)`, children spawned for excluded directories, a dropped `include_directories`,
another `isinstance` class, a dropped group of known paths, removal outside `if should_be_deleted`, an inverted answer —
makes it fail to compile: the theorems of C11 then no longer speak about the code and the check reports PROOF-BROKEN.
-/
namespace Pytask
open Clean CleanGen Generated.Cln

/-- `_RecursivePathNode.from_path`, run from its extracted structure, builds the node the model's `mkNode` builds:
sub nodes exactly for directories no exclude pattern matches, `is_unknown` for a file iff it is neither known nor
excluded, for a directory iff all sub nodes are unknown and it is not excluded — for every tree, path, known set and
exclude predicate. -/
theorem CleanTie_fromPath (known excl : Path → Bool) (path : Path) (t : FTree) :
    mkNodeGen fromPath known excl path t = mkNode known excl path t :=
  mkNodeGen_eq (by decide) known excl t path

/-- The same for one of the given paths, including a path that does not exist (neither file nor directory). -/
theorem CleanTie_fromPath_at (fs : FTree) (known excl : Path → Bool) (path : Path) :
    mkNodeAtGen fromPath fs known excl path = mkNodeAt fs known excl path :=
  mkNodeAtGen_eq (by decide) fs known excl path

/-- `_find_all_unknown_paths_per_recursive_node`, run from its extracted structure, yields what `listNode` yields:
the node's path iff it is unknown and a file, or a directory and `--directories` is given; otherwise the listings of
its sub nodes in order. -/
theorem CleanTie_listing (d : Bool) (n : Node) : listNodeGen listing d n = listNode d n :=
  listNodeGen_eq (by decide) d n

/-- `_find_all_unknown_paths`: the nodes of `session.config["paths"]`, their listings chained in order. -/
theorem CleanTie_findAllUnknown (fs : FTree) (known excl : Path → Bool) (roots : List Path) (d : Bool) :
    findAllUnknownGen fromPath listing findAll fs known excl roots d = findAllUnknown fs known excl roots d :=
  findAllUnknownGen_eq (by decide) (by decide) (by decide) fs known excl roots d

/-- `_yield_paths_from_task` over all tasks — the extracted `isinstance` chain applied to leaves of every class
(`PathNode`, `PickleNode`, a user-defined class implementing the `PPathNode` protocol, `DirectoryNode`, `PythonNode`) —
yields exactly the known files of the model: task modules, the paths of all path nodes whatever their class, and what
directory nodes collect. -/
theorem CleanTie_knownFiles (sx : SessionX) (p : Path) :
    p ∈ knownFilesGen yieldPaths sx ↔
      p ∈ sx.toSession.taskPaths ++ sx.toSession.nodePaths ++
        (if Generated.cleanKnowsProvisional then sx.toSession.provisionalPaths else []) :=
  mem_knownFilesGen (by decide) sx p

/-- `_collect_all_paths_known_to_pytask`, run from its extracted contributions, returns the set `knownPaths` returns. -/
theorem CleanTie_knownPaths (sx : SessionX) (p : Path) :
    p ∈ knownPathsGen knownOps yieldPaths sx ↔ p ∈ knownPaths sx.toSession :=
  mem_knownPathsGen (by decide) (by decide) sx p

/-- The loop of `clean`, run from the behaviour extracted for each `_CleanMode`, prints, asks and removes what the
model's `cleanLoop` does: dry-run prints only; force removes every path (`rmtree` for directories, `unlink`
otherwise) and prints unless `--quiet`; interactive asks for every path and removes the confirmed ones. -/
theorem CleanTie_cleanLoop (mode : Mode) (quiet : Bool) (yes : Path → Bool) (L : List Path) (fs : FTree) :
    cleanLoopGen modeLoop mode quiet yes L fs = cleanLoop mode quiet yes L fs :=
  cleanLoopGen_eq (by decide) mode quiet yes L fs

/-- Hence the whole model: the command with every part computed from the extracted data is `Clean.clean`, the
function the theorems of C11 are stated about. -/
theorem CleanTie_clean (mode : Mode) (quiet : Bool) (yes : Path → Bool) (sx : SessionX) (fs : FTree) :
    cleanGen mode quiet yes sx fs = clean mode quiet yes sx.toSession fs := by
  have hargs : checkCommandArgs commandArgs = true := by decide
  unfold cleanGen clean unknownPathsGen unknownPaths
  rw [if_pos hargs, CleanTie_cleanLoop, CleanTie_findAllUnknown, isKnownGen_eq (by decide) (by decide)]
  rfl

/-! ### non-vacuity: the interpreters compute, and the checks discriminate -/

def tieFs : FTree :=
  .dir [] [.dir "r".toList [
    .file "task_a.py".toList, .file "in.pkl".toList, .file "cfg.json".toList, .file "junk.txt".toList,
    .dir "data".toList [.file "u1.csv".toList], .dir "bld".toList [.file "x.o".toList, .dir "deep".toList []],
    .dir "keep".toList [.dir "empty".toList []]]]

def tieSx : SessionX :=
  { base := { root := ["r".toList], config := none, paths := [["r".toList]], taskPaths := [], nodePaths := [],
              userExclude := ["empty".toList], directories := true,
              git := { installed := false, top := none, tracked := [] } },
    tasks := [{ isWithPath := true, path := ["r".toList, "task_a.py".toList],
                dependsOn := [⟨.pickleNode, ["r".toList, "in.pkl".toList], []⟩,
                              ⟨.customPathNode, ["r".toList, "cfg.json".toList], []⟩,
                              ⟨.directoryNode, [], [["r".toList, "data".toList, "u1.csv".toList]]⟩,
                              ⟨.pythonNode, [], []⟩],
                produces := [] }] }

/-- The interpreted command lists the junk file and the junk directory and keeps the PickleNode / custom-node
dependencies, the DirectoryNode matches and the directory whose only content is excluded. -/
example : unknownPathsGen tieSx tieFs = [["r".toList, "junk.txt".toList], ["r".toList, "bld".toList]] := by decide

example : (cleanGen .force false (fun _ => false) tieSx tieFs).1 =
    [.removed ["r".toList, "junk.txt".toList], .removed ["r".toList, "bld".toList]] := by decide

/-- The check of `from_path` rejects the quantifier with a filter (`all(n.is_unknown for n in sub_nodes if n.is_file or
n.sub_nodes)`: empty sub-directories no longer make a directory known), `any` instead of `all`, and children for
excluded directories. -/
example : checkFromPath { fromPath with unknown :=
    (NExp.or (.and .isFile (.not (.or .known .excl)))
      (.and (.and .isDir (.allSub (.or (.not (.or (.atom .isFile) (.atom .hasSubs))) (.atom .unknown)))) (.not .excl))) } = false := by
  decide
example : checkFromPath { fromPath with unknown :=
    (NExp.or (.and .isFile (.not (.or .known .excl))) (.and (.and .isDir (.anySub (.atom .unknown))) (.not .excl))) } = false := by
  decide
example : checkFromPath { fromPath with spawn := .isDir } = false := by decide
/-- … and accepts an equivalent formulation (if/elif instead of and/or, `not any(not unknown)`). -/
example : checkFromPath { fromPath with unknown :=
    (NExp.ite .isFile (.and (.not .excl) (.not .known))
      (.ite .isDir (.and (.not .excl) (.not (.anySub (.not (.atom .unknown))))) .ff)) } = true := by decide
/-- The check of the node classes rejects `isinstance(node, PathNode)` (PickleNode and user-defined path nodes unknown). -/
example : checkYield { yieldPaths with arms := [("PathNode", .path), ("DirectoryNode", .collect)] } = false := by decide
/-- The check of the loop rejects a removal that also runs in dry-run mode, and an inverted answer. -/
example : checkModeLoop [("dry-run", { would := .tt, asks := .ff, printsRemove := .ff, rmtree := .isDir, unlink := .not .isDir }),
    ("force", { would := .ff, asks := .ff, printsRemove := .not .quiet, rmtree := .isDir, unlink := .not .isDir }),
    ("interactive", { would := .ff, asks := .tt, printsRemove := .and .confirm (.not .quiet), rmtree := .and .confirm .isDir,
                      unlink := .and .confirm (.not .isDir) })] = false := by decide
example : checkModeLoop [("dry-run", { would := .tt, asks := .ff, printsRemove := .ff, rmtree := .ff, unlink := .ff }),
    ("force", { would := .ff, asks := .ff, printsRemove := .not .quiet, rmtree := .isDir, unlink := .not .isDir }),
    ("interactive", { would := .ff, asks := .tt, printsRemove := .and (.not .confirm) (.not .quiet),
                      rmtree := .and (.not .confirm) .isDir, unlink := .and (.not .confirm) (.not .isDir) })] = false := by decide

end Pytask
