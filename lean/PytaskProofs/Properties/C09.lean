import PytaskProofs.Lemmas.Graph
import PytaskProofs.Lemmas.Dag
/-!
# C09 — ill-formed task graphs are rejected before anything runs

*Ill-formed* is stated on the declarations alone (`Lemmas/Dag.lean`): `IllFormed P` = a closed chain of
"depends on" / "produces" / "after" declarations (`SpecCycle`), or two tasks with different ids declaring the
same product (`SharedProduct`). `build` is the model of `pytask.build` from `create_dag` on
(`PytaskModel/Engine.lean`); the order of the checks inside `create_dag_from_session` and the exception → exit
code ladder are read from the source (`Generated.dagPipeline`, `Generated.buildLadder`, `Generated.exitCodes`).

Result: the property holds for every project in which each `after` declaration names a task that has a
product (`C09_reject_partial`, `C09_accept`). It is **false in general** (`C09_reject_full_false`): `_modify_dag`
routes `after` through the products of the named task, so a chain of declarations that is closed only through
an `after` towards a product-less task is not seen (finding F1). `C09_exit4_iff` states exactly what the code
rejects.
-/
namespace Pytask
open Engine G

/-- Exit code 4 is `ExitCode.DAG_FAILED`, and it is what `build()` returns for `ResolvingDependenciesError`
(both facts are read from the source by the translator). -/
theorem C09_dag_failed_code : exitCode "DAG_FAILED" = 4 ∧ ladderCode "ResolvingDependenciesError" = exitCode "DAG_FAILED" := by
  decide

/-- **hasCycle is reachability** (graph level). The cycle check used by `create_dag` and by the scheduler
(`find_cycle`, modelled as `|E|`-fold ancestor expansion) answers "yes" iff some node lies on a closed walk. -/
theorem C09_hasCycle_true_iff (g : G) : g.hasCycle = true ↔ ∃ v ∈ g.nodes, Reach g v v :=
  hasCycle_true_iff

/-- **Ancestors / descendants are reachability** (graph level): the model's `nx.ancestors` / `nx.descendants`. -/
theorem C09_anc_desc_iff (g : G) (a v : Nat) :
    (a ∈ g.ancRaw v ↔ Reach g a v) ∧ (a ∈ g.descRaw v ↔ Reach g v a) :=
  ⟨mem_ancRaw_iff, mem_descRaw_iff⟩

/-- **Acyclic = ranked** (graph level). On a graph whose edges join nodes, the cycle check answers "no" iff
there is a rank function that strictly increases along every edge (so a topological order exists). -/
theorem C09_hasCycle_false_iff_hasRank (g : G) (wf : WF g) : g.hasCycle = false ↔ HasRank g :=
  hasCycle_false_iff_hasRank wf

/-- **What `create_dag` rejects, exactly.** For every project and configuration, `create_dag` raises iff the
declarations contain a closed chain in which `after` counts only towards tasks that have products, or one
product declared by two tasks. -/
theorem C09_createDag_error_iff (P : Project) (cfg : Cfg) :
    (∃ e, createDag P cfg = .error e) ↔ CodeIllFormed P :=
  createDag_error_iff P cfg

/-- **C09_reject (code level).** Whatever the configuration (`force`, `dry_run`, `-k`, `-m`, `max_failures`), the
initial files and database, and whatever schedule is offered: a project the code regards as ill-formed ends with
exit code 4 = DAG_FAILED, no task body ran, no task got a report, and files and database are untouched. -/
theorem C09_reject_code (F : BodyFn) (P : Project) (cfg : Cfg) (w : World) (picks : List Nat)
    (h : CodeIllFormed P) :
    ∃ r, build F P cfg w picks = .ok r ∧ r.exit = exitCode "DAG_FAILED" ∧ r.exit = 4 ∧
      r.log = [] ∧ r.reports = [] ∧ r.w = w := by
  obtain ⟨e, he⟩ := (createDag_error_iff P cfg).2 h
  unfold build
  rw [he]
  exact ⟨_, rfl, by rw [ladderCode_dag, exitCode_dag], ladderCode_dag, rfl, rfl, rfl⟩

/-- **C09_reject (partial, declarations level).** If every `after` declaration names a task that has a product,
every ill-formed project — closed chain through dependencies, products and `after` declarations of any length,
or two tasks declaring one product — is rejected with exit code 4 before anything runs and without recording. -/
theorem C09_reject_partial (F : BodyFn) (P : Project) (cfg : Cfg) (w : World) (picks : List Nat)
    (hall : AfterTargetsHaveProducts P) (h : IllFormed P) :
    ∃ r, build F P cfg w picks = .ok r ∧ r.exit = exitCode "DAG_FAILED" ∧ r.exit = 4 ∧
      r.log = [] ∧ r.reports = [] ∧ r.w = w :=
  C09_reject_code F P cfg w picks ((illFormed_iff_code hall).1 h)

/-- **Exit code 4 characterised.** Whenever the build returns, its exit code is 4 iff the project is ill-formed
in the code's sense. -/
theorem C09_exit4_iff (F : BodyFn) (P : Project) (cfg : Cfg) (w : World) (picks : List Nat) (r : Result)
    (hb : build F P cfg w picks = .ok r) : r.exit = 4 ↔ CodeIllFormed P := by
  rw [← createDag_error_iff P cfg]
  unfold build at hb
  cases hc : createDag P cfg with
  | error e =>
    rw [hc] at hb
    simp only [Except.ok.injEq] at hb
    rw [← hb]
    exact ⟨fun _ => ⟨e, rfl⟩, fun _ => ladderCode_dag⟩
  | ok gm =>
    obtain ⟨g, marks⟩ := gm
    rw [hc] at hb
    simp only at hb
    constructor
    · intro h4
      exfalso
      split at hb
      · simp only [Except.ok.injEq] at hb
        rw [← hb] at h4
        simp only [ladderCode_exception] at h4
        omega
      · split at hb
        · cases hb
        · simp only [Except.ok.injEq] at hb
          rw [← hb] at h4
          simp only [ladderCode_exception, ladderCode_execution, exitCode_ok] at h4
          split at h4
          · omega
          · split at h4 <;> omega
    · rintro ⟨e, he⟩
      cases he

/-- **C09_accept.** A project whose declarations are acyclic and whose products are unique is never rejected:
whenever the build returns, its exit code is not 4. (No side condition: the code rejects only ill-formed projects.) -/
theorem C09_accept (F : BodyFn) (P : Project) (cfg : Cfg) (w : World) (picks : List Nat) (r : Result)
    (hwf : ¬ IllFormed P) (hb : build F P cfg w picks = .ok r) :
    r.exit ≠ 4 ∧ r.exit ≠ exitCode "DAG_FAILED" := by
  have h4 : r.exit ≠ 4 := fun h => hwf (CodeIllFormed.spec ((C09_exit4_iff F P cfg w picks r hb).1 h))
  exact ⟨h4, by rw [C09_dag_failed_code.1]; exact h4⟩

/-- **C09_accept, scheduler side.** A well-formed project passes `create_dag`, the graph it returns is acyclic, and
the scheduler's own `check_dag` therefore does not raise (before the repair of F2 a cycle closed by `after`
declarations surfaced only there, as a `ValueError` with exit code 1). -/
theorem C09_accept_sorter (P : Project) (cfg : Cfg) (hwf : ¬ IllFormed P) :
    ∃ g m, createDag P cfg = .ok (g, m) ∧ g.hasCycle = false ∧ HasRank g ∧
      ∃ so, Sorter.fromDag g isTaskV (prioFn P) = .ok so := by
  cases hc : createDag P cfg with
  | error e => exact absurd (CodeIllFormed.spec ((createDag_error_iff P cfg).1 ⟨e, hc⟩)) hwf
  | ok gm =>
    obtain ⟨g, m⟩ := gm
    obtain ⟨hg, hcy⟩ := createDag_ok hc
    refine ⟨g, m, rfl, hcy, ?_, ?_⟩
    · exact (hasCycle_false_iff_hasRank (hg ▸ finalGraph_wf P)).1 hcy
    · unfold Sorter.fromDag
      rw [hcy]
      exact ⟨_, rfl⟩

/-- **After a successful `create_dag` the scheduler never sees a cycle** (regression statement for F2, any project). -/
theorem C09_no_late_cycle (P : Project) (cfg : Cfg) (g : G) (m : List Nat) (h : createDag P cfg = .ok (g, m)) :
    ∃ so, Sorter.fromDag g isTaskV (prioFn P) = .ok so := by
  unfold Sorter.fromDag
  rw [(createDag_ok h).2]
  exact ⟨_, rfl⟩

/-- The full-strength rejection statement: *every* ill-formed project is rejected with exit code 4, nothing runs,
nothing is recorded. -/
def C09_reject_full : Prop :=
  ∀ (F : BodyFn) (P : Project) (cfg : Cfg) (w : World) (picks : List Nat), IllFormed P →
    ∃ r, build F P cfg w picks = .ok r ∧ r.exit = 4 ∧ r.log = [] ∧ r.w = w

/-- Witness: two tasks without products, each declared `after` the other (expression form). -/
def f1Cycle : Project := ⟨[{ id := 0, src := 90, deps := [], prods := [], after := [1] },
                            { id := 1, src := 90, deps := [], prods := [], after := [0] }]⟩

theorem f1Cycle_illFormed : IllFormed f1Cycle := by
  refine Or.inl ⟨.task 0, ?_⟩
  have e1 : SpecEdge f1Cycle (.task 0) (.task 1) :=
    SpecEdge.after (t := { id := 1, src := 90, deps := [], prods := [], after := [0] }) (o := 0)
      (by simp [f1Cycle]) (by simp) (by decide)
  have e2 : SpecEdge f1Cycle (.task 1) (.task 0) :=
    SpecEdge.after (t := { id := 0, src := 90, deps := [], prods := [], after := [1] }) (o := 1)
      (by simp [f1Cycle]) (by simp) (by decide)
  exact Relation.TransGen.tail (Relation.TransGen.single e1) e2

/-- **The full statement is false of the current code (finding F1).** The mutual-`after` project above is
ill-formed, yet the build accepts it: exit code 0, and both bodies run (in the schedule 0, 1). -/
theorem C09_reject_full_false : ¬ C09_reject_full := by
  intro h
  obtain ⟨r, hb, h4, _, _⟩ := h (fun _ _ _ _ => 0) f1Cycle {} ⟨[(90, 1)], []⟩ [0, 1] f1Cycle_illFormed
  have hcode : ¬ CodeIllFormed f1Cycle := by
    rw [← createDag_error_iff f1Cycle {}]
    rintro ⟨e, he⟩
    have hok : (createDag f1Cycle {}).toBool = true := by decide
    rw [he] at hok
    cases hok
  exact hcode ((C09_exit4_iff _ _ _ _ _ r hb).1 h4)

/-- What the code does on the witness: it builds, both bodies run, exit code 0. -/
theorem C09_f1_witness_runs :
    (build (fun _ _ _ _ => 0) f1Cycle {} ⟨[(90, 1)], []⟩ [0, 1]).toOption.map (fun r => (r.exit, r.log)) = some (0, [0, 1]) := by
  decide

/-- **What the code does outside the partial theorem** (the F1 class, stated precisely): a project that is
ill-formed only because of `after` declarations towards product-less tasks is *accepted* — never exit code 4. -/
theorem C09_prodless_after_accepted (F : BodyFn) (P : Project) (cfg : Cfg) (w : World) (picks : List Nat) (r : Result)
    (_hill : IllFormed P) (hcode : ¬ CodeIllFormed P) (hb : build F P cfg w picks = .ok r) : r.exit ≠ 4 :=
  fun h => hcode ((C09_exit4_iff F P cfg w picks r hb).1 h)

/-! ### non-vacuity -/

/-- a cycle of length 3 through files: 0 → n20 → 1 → n21 → 2 → n22 → 0 -/
def exCyc : Project := ⟨[{ id := 0, src := 90, deps := [22], prods := [20], after := [] },
                          { id := 1, src := 90, deps := [20], prods := [21], after := [] },
                          { id := 2, src := 91, deps := [21], prods := [22], after := [] }]⟩
example : IllFormed exCyc ∧ AfterTargetsHaveProducts exCyc :=
  ⟨CodeIllFormed.spec ((createDag_error_iff exCyc {}).1 ⟨.cycle, by decide⟩), by decide⟩

/-- the F2 witness: a cycle closed only by `after` declarations, both tasks with a product -/
def exAfterCyc : Project := ⟨[{ id := 0, src := 90, deps := [], prods := [20], after := [1] },
                               { id := 1, src := 90, deps := [], prods := [21], after := [0] }]⟩
example : IllFormed exAfterCyc ∧ AfterTargetsHaveProducts exAfterCyc :=
  ⟨CodeIllFormed.spec ((createDag_error_iff exAfterCyc {}).1 ⟨.cycle, by decide⟩), by decide⟩

/-- two tasks declaring product 20 -/
def exShared : Project := ⟨[{ id := 0, src := 90, deps := [10], prods := [20], after := [] },
                             { id := 1, src := 90, deps := [10], prods := [21, 20], after := [] }]⟩
example : SharedProduct exShared ∧ createDag exShared {} = .error .sharedProduct := by
  refine ⟨⟨_, List.Mem.head _, _, List.Mem.tail _ (List.Mem.head _), by decide, 20, by decide, by decide⟩, by decide⟩

/-- a well-formed diamond with an `after` declaration: accepted -/
def exOk : Project := ⟨[{ id := 0, src := 90, deps := [10], prods := [20], after := [] },
                         { id := 1, src := 90, deps := [20], prods := [21], after := [] },
                         { id := 2, src := 91, deps := [20], prods := [22], after := [1] },
                         { id := 3, src := 91, deps := [21, 22], prods := [], after := [0] }]⟩
example : ¬ IllFormed exOk := by
  have hall : AfterTargetsHaveProducts exOk := by decide
  rw [illFormed_iff_code hall, ← createDag_error_iff exOk {}]
  rintro ⟨e, he⟩
  have hok : (createDag exOk {}).toBool = true := by decide
  rw [he] at hok
  cases hok


/-- the hypotheses of `C09_accept` / `C09_exit4_iff` are satisfiable: the diamond builds under the schedule 0,1,2,3 -/
example : (build (fun _ _ _ _ => 0) exOk {} ⟨[(90, 1), (91, 1), (10, 5)], []⟩ [0, 1, 2, 3]).toOption.map
    (fun r => (r.exit, r.log, r.complete)) = some (0, [0, 1, 2, 3], true) := by decide

/-- … and so is the hypothesis of `C09_reject_code` with a non-empty schedule offered: nothing of it is run -/
example : (build (fun _ _ _ _ => 0) exAfterCyc {} ⟨[(90, 1)], []⟩ [0, 1]).toOption.map
    (fun r => (r.exit, r.log, r.reports.length)) = some (4, [], 0) := by decide

/-- the graphs `create_dag` builds satisfy the side condition of `C09_hasCycle_false_iff_hasRank` -/
example : WF (finalGraph exOk) ∧ WF (baseGraph exCyc) := ⟨finalGraph_wf _, baseGraph_wf _⟩

end Pytask
