-- TIE-PROPS: C01 C02 C03 C04 C05 C06 C08 C09 C10 C17
-- TIE-SECTION: extract_dag
import PytaskProofs.Lemmas.DagGenRefines
/-!
# DagTie — the model's `create_dag` equals the one computed from dag.py and the selection code

`Engine.baseGraph` / `modifyDag` / `sharedProduct` / `deselected` / `createDag` are written by hand after
dag.py's `_create_dag_from_tasks`, `_modify_dag`, `_check_if_tasks_have_the_same_products`, `create_dag_from_session`
and mark/__init__.py's selection. `harness/extract_dag.py` reads those functions into `Generated.Dag.*`, `DagGen.lean`
interprets the data (incl. which graph *variable* every step of `create_dag_from_session` reads, with Python's aliasing of
the in-place modified graph), and the theorems below say the interpreters return what the hand-written definitions
return. A source change that alters an extracted fact is either rejected by the translator or breaks this module.
-/
namespace Pytask
open Engine DagGen

/-- `_create_dag_from_tasks`: per task the task node, per dependency node + edge node→task, per product node + edge
task→node — for a project without wrapped PythonNodes this is the model's `baseGraph`, node and edge order included. -/
theorem DagTie_baseGraph (P : Project) : baseGraphGen (fun _ => none) P = baseGraph P := baseGraphGen_eq P

/-- Outside the static model: whatever dependencies are PythonNodes wrapping another PythonNode `d'`, the extracted
construction draws the edge `d' → d` (the wrapped product precedes the wrapper). -/
theorem DagTie_wrapper_edge (wrap : Nat → Option Nat) (P : Project) {t : TaskSpec} {d d' : Nat}
    (ht : t ∈ P.tasks) (hd : d ∈ t.deps) (hw : wrap d = some d') : (nv d', nv d) ∈ (baseGraphGen wrap P).edges :=
  baseGraphGen_wrapper_edge wrap P ht hd hw

/-- `_modify_dag`: for every `after` target an edge from each **successor** of the target to the task; the expression
branch discards the task's own signature, the list branch does not — it cannot contain the task itself (hypothesis). -/
theorem DagTie_modifyDag (kindOf : Nat → Generated.Dag.AKind) (P : Project) (g : G)
    (h : ∀ t ∈ P.tasks, kindOf t.id = .list → t.id ∉ t.after) : modifyDagGen kindOf P g = modifyDag P g :=
  modifyDagGen_eq kindOf P g h

/-- `_check_if_tasks_have_the_same_products`: a vertex with a `"node"` attribute and more than one predecessor. -/
theorem DagTie_sharedProduct (g : G) : sharedProductGen g = sharedProduct g := sharedProductGen_eq g

/-- The selection: for `-k` and then for `-m` (each only if given) every task outside the union of
`task_and_preceding_tasks` over the matching tasks is marked; both sets refer to the same graph. -/
theorem DagTie_deselected (P : Project) (g : G) (cfg : Cfg) : deselectedGen P g cfg = deselected P g cfg :=
  deselectedGen_eq P g cfg

/-- `create_dag_from_session`: create, cycle check, product check, `_modify_dag` (in place), second cycle check on the
modified graph, selection on the modified graph; the modified graph is returned. -/
theorem DagTie_createDag (kindOf : Nat → Generated.Dag.AKind) (P : Project) (cfg : Cfg)
    (h : ∀ t ∈ P.tasks, kindOf t.id = .list → t.id ∉ t.after) : createDagGen kindOf P cfg = createDag P cfg :=
  createDagGen_eq kindOf P cfg h

/-- In particular when every `after` is an expression (the branch that discards the task itself): no hypothesis. -/
theorem DagTie_createDag_str (P : Project) (cfg : Cfg) : createDagGen (fun _ => .str) P cfg = createDag P cfg :=
  createDagGen_eq _ P cfg (fun _ _ h => by cases h)

/-! ### non-vacuity -/

def dtieP : Project := ⟨[
  { id := 0, src := 90, deps := [10], prods := [20], after := [] },
  { id := 1, src := 90, deps := [20], prods := [21], after := [] },
  { id := 2, src := 90, deps := [10], prods := [22], after := [0, 2] },
  { id := 3, src := 90, deps := [], prods := [], after := [] }]⟩

/-- The interpreted `create_dag` on a project with a chain, an `after` (which also names the task itself: discarded) and
a `-k` selection of task 1: the after-edge 41 → 4 exists, tasks 2 and 3 are deselected. -/
example : (createDagGen (fun _ => .str) dtieP { selK := some [1] }).toOption.map (fun r => (r.1.edges.contains (41, 4), r.2)) =
    some (true, [2, 3]) := by decide

/-- Two tasks with the same product are rejected; a cycle introduced by `after` is rejected by the second check. -/
example : (match createDagGen (fun _ => .str) ⟨[{ id := 0, src := 9, deps := [], prods := [5], after := [] },
      { id := 1, src := 9, deps := [], prods := [5], after := [] }]⟩ {} with | .error .sharedProduct => true | _ => false) = true ∧
    (match createDagGen (fun _ => .list) ⟨[{ id := 0, src := 9, deps := [], prods := [5], after := [1] },
      { id := 1, src := 9, deps := [5], prods := [6], after := [] }]⟩ {} with | .error .cycle => true | _ => false) = true := by
  decide

/-- The wrapper hypothesis is satisfiable: dependency 7 wraps node 5. -/
example : (nv 5, nv 7) ∈ (baseGraphGen (fun d => if d == 7 then some 5 else none)
    ⟨[{ id := 0, src := 9, deps := [7], prods := [], after := [] }]⟩).edges := by decide

end Pytask
