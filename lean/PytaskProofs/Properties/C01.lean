import PytaskProofs.Lemmas.Sorter
import PytaskProofs.Lemmas.EngineOrder
/-!
# C01 — tasks run after everything they depend on, at most once per build

Scheduler level (`TopologicalSorter`, any driver: any batch sizes, any completion order, re-creation
of the sorter when the graph grows) and engine level (`pytask_execute_build`, every legal schedule).
-/
namespace Pytask
open Sorter Engine

/-- **sorter_safe.** In every reachable scheduler state, a task that `get_ready` hands out has all
its task-ancestors (w.r.t. the graph the *current* sorter was built from) already marked done. -/
theorem C01_sorter_safe {E : List (Nat × Nat)} {s : Sorter} {h : List Nat} (hr : Reach E s h)
    (n : Nat) (b : List Nat) (hb : LegalBatch s n b) (x : Nat) (hx : x ∈ b) (a : Nat)
    (ha : (a, x) ∈ E) : a ∈ s.done := by
  have hinv := reach_inv hr
  have hav := mem_avail.1 (hb.2.1 x hx)
  rcases hinv.edges a x ha hav.1 with he | hd
  · exact absurd he (indeg0_iff.1 hav.2.1 a)
  · exact hd

/-- **sorter_once.** No task is ever handed out twice, across batches, completions and
re-creations of the sorter. -/
theorem C01_sorter_once {E : List (Nat × Nat)} {s : Sorter} {h : List Nat} (hr : Reach E s h)
    (n : Nat) (b : List Nat) (hb : LegalBatch s n b) : (h ++ b).Nodup :=
  (reach_inv (Reach.ready n b hr hb)).hnodup

/-- The reference edge set after `from_dag` is exactly "task-ancestor in the full bipartite graph". -/
theorem C01_sorter_edges {full : G} {isTask : Nat → Bool} {prio : Nat → Int} {f : Sorter}
    (h : fromDag full isTask prio = .ok f) (a t : Nat) :
    (a, t) ∈ f.edges ↔ t ∈ full.nodes ∧ isTask t = true ∧ a ∈ full.anc t ∧ isTask a = true :=
  fromDag_edges h a t

/-- Re-creation keeps what was done and what is being processed. -/
theorem C01_recreate_keeps {full : G} {isTask : Nat → Bool} {prio : Nat → Int} {old s' : Sorter}
    (h : fromDagAndSorter full isTask prio old = .ok s') :
    s'.done = old.done ∧ s'.processing = old.processing := by
  unfold fromDagAndSorter at h
  split at h
  · cases h
  · rename_i f hf
    cases h
    exact ⟨by simp [finish, (fromDag_init hf).1], rfl⟩

theorem tv_inj {a b : Nat} (h : tv a = tv b) : a = b := by unfold tv at h; omega

/-- **C01_order** (engine level). For every schedule the build loop accepts: when the protocol of
task `t` starts, the protocol of every task-ancestor of `t` in the build's graph (product chains
and the `after` edges that `_modify_dag` created) has already completed. The body runs inside the
protocol, so no body starts before its ancestors' bodies have finished. -/
theorem C01_order (F : BodyFn) (P : Project) (cfg : Cfg) (g : G) (marks : List Nat) (so so' : Sorter)
    (s s' : Sess) (picks : List Nat)
    (_hdag : createDag P cfg = .ok (g, marks))
    (hso : fromDag g isTaskV (prioFn P) = .ok so)
    (hb : buildLoop F P g cfg so s picks = .ok (so', s'))
    (pre : List Nat) (t : Nat) (post : List Nat) (hp : picks = pre ++ t :: post)
    (a : Nat) (ha : a ∈ taskAnc g t) : a ∈ pre := by
  obtain ⟨hd0, hp0⟩ := fromDag_init hso
  have hr0 : Reach so.edges so [] := Reach.init so hd0 hp0
  obtain ⟨hr1, _, hord, _⟩ := buildLoop_order F P g cfg picks so.edges so s [] so' s' hr0 hd0 hb
  -- `t` was available when picked, hence a node of the sorter, hence a task vertex of `g`
  unfold taskAnc at ha
  simp only [List.mem_map, List.mem_filter] at ha
  obtain ⟨v, ⟨hv1, hv2⟩, rfl⟩ := ha
  -- membership of tv t in g.nodes: from the handed-out list being available at some point
  have htn : tv t ∈ g.nodes ∧ isTaskV (tv t) = true := by
    have key := buildLoop_picked_node F P g cfg picks so s so' s' hb t (by rw [hp]; simp)
    rw [fromDag_nodes hso] at key
    simpa using key
  have hedge : (v, tv t) ∈ so.edges := (fromDag_edges hso v (tv t)).2 ⟨htn.1, htn.2, hv1, hv2⟩
  have := hord pre t post hp v hedge
  simp only [List.nil_append, List.mem_map] at this
  obtain ⟨a', ha', hv⟩ := this
  have : v / 2 = a' := by rw [← hv]; unfold tv; omega
  rw [this]; exact ha'

/-- **C01_once** (engine level). In one build no task's protocol runs twice and no body is
invoked twice (static projects; for task generators see C18). -/
theorem C01_once (F : BodyFn) (P : Project) (cfg : Cfg) (g : G) (so so' : Sorter)
    (s s' : Sess) (picks : List Nat)
    (hso : fromDag g isTaskV (prioFn P) = .ok so)
    (hb : buildLoop F P g cfg so s picks = .ok (so', s')) :
    picks.Nodup ∧ ∃ l, l.Sublist picks ∧ l.Nodup ∧ s'.log = s.log ++ l := by
  obtain ⟨hd0, hp0⟩ := fromDag_init hso
  have hr0 : Reach so.edges so [] := Reach.init so hd0 hp0
  obtain ⟨hr1, _, _, l, hl1, hl2⟩ := buildLoop_order F P g cfg picks so.edges so s [] so' s' hr0 hd0 hb
  have hnd : (picks.map tv).Nodup := by simpa using (reach_inv hr1).hnodup
  have hpn : picks.Nodup := by
    have := List.pairwise_map.1 hnd
    exact this.imp (fun hne heq => hne (by rw [heq]))
  exact ⟨hpn, l, hl1, List.Nodup.sublist hl1 hpn, hl2⟩

/-- The full-strength edge completeness ("an `after` declaration always orders the two tasks") is
**false of the current code**: `_modify_dag` routes `after` through the *products* of the upstream
task, so a product-less upstream task is not an ancestor (finding F1). -/
def C01_edges_complete_full : Prop :=
  ∀ (P : Project) (cfg : Cfg) (g : G) (marks : List Nat), createDag P cfg = .ok (g, marks) →
    ∀ t ∈ P.tasks, ∀ u ∈ t.after, u ≠ t.id → (∃ s ∈ P.tasks, s.id = u) → u ∈ taskAnc g t.id

def f1P : Project := ⟨[{ id := 0, src := 90, deps := [], prods := [], after := [] },
                        { id := 1, src := 90, deps := [], prods := [], after := [0] }]⟩

theorem C01_edges_complete_full_false : ¬ C01_edges_complete_full := by
  intro h
  have := h f1P {} (baseGraph f1P) [] (by rfl) _ (List.Mem.tail _ (List.Mem.head _)) 0 (by decide) (by decide)
    ⟨_, List.Mem.head _, rfl⟩
  revert this
  decide

/-- Non-vacuity: a concrete three-task chain with an `after` edge through a product; the only legal
schedule is 0,1,2 and all bodies run once. -/
def exP : Project := ⟨[{ id := 0, src := 90, deps := [10], prods := [20], after := [] },
                        { id := 1, src := 90, deps := [20], prods := [21], after := [] },
                        { id := 2, src := 90, deps := [], prods := [], after := [1] }]⟩
example : taskAnc (modifyDag exP (baseGraph exP)) 2 = [1, 0] ∨ taskAnc (modifyDag exP (baseGraph exP)) 2 = [0, 1] := by decide

end Pytask
