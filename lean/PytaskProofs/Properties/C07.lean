import PytaskProofs.Lemmas.PyTree
import PytaskProofs.Lemmas.TaskArgs
/-!
# C07 — task functions get exactly the declared values; returns land in declared nodes

Property theorems only (helper lemmas: `Lemmas/PyTree.lean`, `Lemmas/TaskArgs.lean`).
`T α` models the pytrees optree handles for pytask (`list`, `tuple`, `dict` with sorted keys,
everything else — `None` included — a leaf); `TaskArgs` models the collection of a task function's
declarations, the construction of `kwargs`, and the handling of the return value.
-/
namespace Pytask
namespace PyTree
variable {α β γ : Type}

/-! ## tree level -/

/-- **unflatten_flatten.** Flattening a tree and rebuilding it from its structure and leaves gives
the tree back: no leaf changes position in `tree_flatten` / `unflatten`. -/
theorem C07_unflatten_flatten (t : T α) : unflatten (struct t) (leaves t) = some t := by
  have := unflattenAux_map (fun _ : α => ()) t []
  simp only [List.append_nil] at this
  simp [unflatten, struct, this]

/-- Conversely, whatever `unflatten` builds has the requested structure and exactly the given
leaves, in order (so `unflatten` fails unless the number of leaves is exact). -/
theorem C07_unflatten_sound (s : T β) (l : List α) (t : T α) (h : unflatten s l = some t) :
    struct t = struct s ∧ leaves t = l := by
  unfold unflatten at h
  split at h
  · rename_i t' h'
    simp only [Option.some.injEq] at h; subst h
    have := unflattenAux_sound.1 s l t' [] h'
    exact ⟨this.1, by simpa using this.2.symm⟩
  · simp at h

/-- **leaves_map.** `tree_map(f, t)` applies `f` leaf by leaf, in order, and keeps the container
structure. -/
theorem C07_leaves_map (f : α → β) (t : T α) :
    leaves (map f t) = (leaves t).map f ∧ struct (map f t) = struct t :=
  ⟨leaves_map f t, struct_map f t⟩

/-- **paths_at.** The `i`-th path reported for a (well-formed) tree leads to its `i`-th leaf. -/
theorem C07_paths_at (t : T α) (hwf : WF t = true) (i : Nat) (hi : i < (paths t).length) :
    at? t ((paths t)[i]) = some (.leaf ((leaves t)[i]'(by rw [← length_paths]; exact hi))) := by
  apply paths_at_aux.1 t hwf
  rw [List.mem_iff_getElem]
  exact ⟨i, by simp [List.length_zip, ← length_paths]; exact hi, by simp⟩

/-- **tree_map_with_path** hands every leaf exactly its own position and keeps the structure
(this is how `collect_utils` tells each collected node where it sits in the argument). -/
theorem C07_mapWithPath (f : Path → α → β) (t : T α) :
    leaves (mapWithPath f t) = List.zipWith f (paths t) (leaves t) ∧ struct (mapWithPath f t) = struct t :=
  ⟨leaves_mapWithPath t f, struct_mapWithPath t f⟩

/-- `flatten_up_to` succeeds exactly when the (non-strict) prefix test passes. -/
theorem C07_prefix_iff_flatten (s : T α) (o : T β) :
    isPrefix false (struct s) (struct o) = true ↔ ∃ vs, flattenUpTo (struct s) o = some vs := by
  simp only [isPrefix, Bool.false_and, Bool.not_false, Bool.and_true, struct, isPrefixNS_map, flattenUpTo_map]
  rw [← flattenUpTo_isSome, Option.isSome_iff_exists]

/-- **prefix_flatten.** If the declared structure is a prefix of the structure of the returned
value, `flatten_up_to` yields one value per declared leaf, and value `i` is the subtree of the
returned value at the position of declared leaf `i`. -/
theorem C07_prefix_flatten (s : T α) (out : T β) (hwf : WF s = true)
    (hp : isPrefix false (struct s) (struct out) = true) :
    ∃ vs, flattenUpTo (struct s) out = some vs ∧ vs.length = (leaves s).length ∧
      ∀ (i : Nat) (h1 : i < (paths s).length) (h2 : i < vs.length), at? out ((paths s)[i]) = some (vs[i]) := by
  obtain ⟨vs, hvs⟩ := (C07_prefix_iff_flatten s out).1 hp
  refine ⟨vs, hvs, ?_, ?_⟩
  · simp only [struct, flattenUpTo_map] at hvs
    rw [(flattenUpTo_at_aux.1 s hwf out vs hvs).1, length_paths]
  · intro i h1 h2
    simp only [struct, flattenUpTo_map] at hvs
    apply (flattenUpTo_at_aux.1 s hwf out vs hvs).2
    rw [List.mem_iff_getElem]
    exact ⟨i, by simp [List.length_zip]; omega, by simp⟩

/-- The values cut out by `flatten_up_to` partition the leaves of the returned value, in order:
every returned leaf goes to exactly one product. -/
theorem C07_flatten_partition (s : T α) (out : T β) (vs : List (T β)) (h : flattenUpTo s out = some vs) :
    vs.flatMap leaves = leaves out :=
  flattenUpTo_leaves.1 s out vs h

/-- A leaf of the declaration matches any value; equal shapes are prefixes of each other. -/
theorem C07_prefix_refl (s : T α) (o : T β) (h : sameShape s o = true) : isPrefix false s o = true := by
  simp [isPrefix, sameShape_isPrefixNS s o h]

end PyTree

namespace TaskArgs
open PyTree
variable {V P : Type}

/-! ## arguments: what a parameter receives -/

/-- **kwargs_correct, per dependency (full).** A dependency parameter receives the declared tree with
every leaf replaced by the value loaded from its node — same containers, same positions — for
*every* declaration (a container of plain values may be stored in one `PythonNode`, **collapse_sound**:
loading it gives the declared value back; a container holding a user-written node is collected
leaf by leaf since fix 594c921, which removed finding F70). -/
theorem C07_dep_full (value : T (Decl V P)) :
    PyTree.bind (load false) (collectDep value) = map depObj value := by
  unfold collectDep
  simp only [mapWithPath_const, Generated.collapseKeepsUserNodes, Bool.true_and]
  split
  · rename_i hc
    simp only [isLeafTree_map, leaves_map, List.all_map, Bool.and_eq_true, Bool.not_eq_true',
      List.any_eq_false, List.all_eq_true, Function.comp] at hc
    simp only [PyTree.bind, load, Bool.false_eq_true, ↓reduceIte]
    rw [← bind_leaf, ← bind_leaf]
    apply PyTree.bind_congr
    intro d hd
    have h1 := hc.1.2 d hd
    have h2 := hc.2 d hd
    cases d <;> simp_all [isNodeDecl, collectLeaf, isUnhashedPy, rawObj, depObj]
  · rw [PyTree.bind_map]
    simp only [load_collectLeaf_dep]
    exact bind_leaf depObj value

/-- **collapse_sound.** In particular, when every leaf is a plain Python value the declared value
comes back unchanged. -/
theorem C07_collapse_sound (value : T (Decl V P)) (_h : ∀ d ∈ leaves value, isPlainValue d = true) :
    PyTree.bind (load false) (collectDep value) = map depObj value := C07_dep_full value

/-- **kwargs_correct, per product.** A product parameter receives the declared tree with paths as
(resolved) paths and every node as the node object itself. -/
theorem C07_prod_correct (value : T (Decl V P)) (nodes : T (Node V P)) (isReturn : Bool)
    (h : collectProd isReturn value = .ok nodes) :
    PyTree.bind (load true) nodes = map prodObj value := by
  unfold collectProd at h
  split at h
  · cases h
  · simp only [Except.ok.injEq] at h
    subst h
    rw [mapWithPath_const, bind_map]
    simp only [load_collectLeaf_prod]
    exact bind_leaf prodObj value

/-- Positions are preserved by loading: at the position of leaf `i` of the collected node tree
sits exactly what node `i` loads to (`tree_map(load, nodes)`, also when a load returns a container). -/
theorem C07_load_positions (isProduct : Bool) (nodes : T (Node V P)) :
    leaves (PyTree.bind (load isProduct) nodes) = (leaves nodes).flatMap (fun n => leaves (load isProduct n)) :=
  leaves_bind _ nodes

/-- **kwargs_correct, dict level** (`execute.py:199-207`). The keyword arguments are: for a name in
`task.produces` that is a parameter of the function, the product tree loaded with
`is_product=True`; otherwise, for a name in `task.depends_on`, the dependency tree loaded leaf by
leaf; nothing else. -/
theorem C07_kwargs_correct (params : List String) (dependsOn produces : Dict (T (Node V P)))
    (hn : (Dict.keys produces).Nodup) (name : String) :
    Dict.get (kwargsOf params dependsOn produces) name =
      if params.contains name && Dict.contains produces name then (Dict.get produces name).map (PyTree.bind (load true))
      else (Dict.get dependsOn name).map (PyTree.bind (load false)) := by
  unfold kwargsOf
  simp only [Generated.productsNeedParameter, Bool.not_true, Bool.false_or]
  rw [Dict.get_update _ _ (by rw [Dict.keys_mapVals]; exact Dict.keys_filter_nodup _ _ hn)]
  rw [Dict.get_mapVals, Dict.get_mapVals, Dict.get_filter_key (fun k => params.contains k)]
  by_cases hp : name ∈ params <;> cases hg : Dict.get produces name <;> simp [hp, hg, Dict.contains]

/-- The call binds every parameter to its keyword argument when there is one. -/
theorem C07_bound_kw (kw : Dict (T (Obj V P))) (p : Param V P) (v : T (Obj V P)) (h : Dict.get kw p.name = some v) :
    bound kw p = some v := by
  simp [bound, h]

/-! ## the return value -/

section
variable {N W : Type} [DecidableEq N]

/-- **prefix_reject.** A returned value whose structure the declaration is not a prefix of makes the
task fail and stores nothing: the store is unchanged. -/
theorem C07_prefix_reject (isProv : N → Bool) (canSave : N → T W → Bool) (ret : T N) (out : T W) (s : Store N W)
    (h : isPrefix false (struct ret) (struct out) = false) :
    executeReturn isProv canSave ret out s = (s, false) := by
  simp [executeReturn, Generated.returnPrefixStrict, h]

/-- Conversely the prefix test is the *only* structural reason to fail: if it passes,
`flatten_up_to` cannot raise. -/
theorem C07_prefix_accept (isProv : N → Bool) (canSave : N → T W → Bool) (ret : T N) (out : T W) (s : Store N W)
    (h : isPrefix false (struct ret) (struct out) = true) :
    ∃ vs, flattenUpTo (struct ret) out = some vs ∧
      executeReturn isProv canSave ret out s = saveAll isProv canSave ((leaves ret).zip vs) s := by
  obtain ⟨vs, hvs⟩ := (C07_prefix_iff_flatten ret out).1 h
  exact ⟨vs, hvs, by simp [executeReturn, Generated.returnPrefixStrict, h, hvs]⟩

/-- **Returns land in the declared nodes.** If the declared structure fits, the product nodes are
distinct, none is provisional and every `save` is accepted, the task succeeds, product node `i`
holds the subtree of the returned value at the position of node `i` in the declaration, and no
other node changes. -/
theorem C07_return_stores (isProv : N → Bool) (canSave : N → T W → Bool) (ret : T N) (out : T W) (s : Store N W)
    (hwf : WF ret = true) (hnd : (leaves ret).Nodup)
    (hp : isPrefix false (struct ret) (struct out) = true)
    (hprov : ∀ n ∈ leaves ret, isProv n = false) (hsave : ∀ n v, canSave n v = true) :
    (executeReturn isProv canSave ret out s).2 = true ∧
    (∀ (i : Nat) (h1 : i < (leaves ret).length) (h2 : i < (paths ret).length),
        (executeReturn isProv canSave ret out s).1 ((leaves ret)[i]) = at? out ((paths ret)[i])) ∧
    (∀ n, n ∉ leaves ret → (executeReturn isProv canSave ret out s).1 n = s n) := by
  obtain ⟨vs, hvs, hlen, hat⟩ := C07_prefix_flatten ret out hwf hp
  obtain ⟨vs', hvs', hex⟩ := C07_prefix_accept isProv canSave ret out s hp
  rw [hvs] at hvs'; simp only [Option.some.injEq] at hvs'; subst hvs'
  rw [hex]
  have hmap : ((leaves ret).zip vs).map (·.1) = leaves ret := by
    rw [List.map_fst_zip]; omega
  obtain ⟨ok, st⟩ := saveAll_success isProv canSave ((leaves ret).zip vs) s (by rw [hmap]; exact hnd)
    (fun nv h => ⟨hprov nv.1 (List.of_mem_zip h).1, hsave _ _⟩)
  refine ⟨ok, ?_, ?_⟩
  · intro i h1 h2
    have hi : i < vs.length := by omega
    rw [hat i h2 hi]
    have := st ((leaves ret)[i], vs[i]) (by
      rw [List.mem_iff_getElem]
      exact ⟨i, by simp [List.length_zip]; omega, by simp⟩)
    simpa using this
  · intro n hn
    exact saveAll_outside isProv canSave _ s n (by rw [hmap]; exact hn)

/-- **Nothing is stored in a wrong place — whatever the outcome** (success, structural misfit, or
a `save` that raises half-way): afterwards every node holds either what it held before or the
subtree of the returned value at one of *its own* positions in the declaration. -/
theorem C07_return_nowrong (isProv : N → Bool) (canSave : N → T W → Bool) (ret : T N) (out : T W) (s : Store N W)
    (hwf : WF ret = true) (n : N) :
    (executeReturn isProv canSave ret out s).1 n = s n ∨
    ∃ (i : Nat) (h1 : i < (leaves ret).length) (h2 : i < (paths ret).length),
      (leaves ret)[i] = n ∧ (executeReturn isProv canSave ret out s).1 n = at? out ((paths ret)[i]) := by
  by_cases hp : isPrefix false (struct ret) (struct out) = true
  · obtain ⟨vs, hvs, hlen, hat⟩ := C07_prefix_flatten ret out hwf hp
    obtain ⟨vs', hvs', hex⟩ := C07_prefix_accept isProv canSave ret out s hp
    rw [hvs] at hvs'; simp only [Option.some.injEq] at hvs'; subst hvs'
    rw [hex]
    rcases saveAll_inv isProv canSave ((leaves ret).zip vs) s n with h | ⟨v, hv, he⟩
    · exact Or.inl h
    · right
      rw [List.mem_iff_getElem] at hv
      obtain ⟨i, hi, hiv⟩ := hv
      simp only [List.length_zip] at hi
      have h1 : i < (leaves ret).length := by omega
      have h2 : i < (paths ret).length := by rw [length_paths]; exact h1
      have h3 : i < vs.length := by omega
      simp only [List.getElem_zip, Prod.mk.injEq] at hiv
      refine ⟨i, h1, h2, hiv.1, ?_⟩
      rw [he, hat i h2 h3, hiv.2]
  · left
    simp only [Bool.not_eq_true] at hp
    rw [C07_prefix_reject isProv canSave ret out s hp]

end

end TaskArgs

/-! ## non-vacuity -/
namespace PyTree

/-- `None` is a leaf for pytask (`none_is_leaf=True` in every wrapper of `tree_util.py`). -/
example : leaves (noneTree (0 : Nat)) = [0] := by simp [noneTree, Generated.treeNoneIsLeaf, leaves]

/-- a nested declaration `{"a": [x, (y, z)], "b": {}}`: well-formed, three leaves at three distinct positions
(hypotheses of `C07_paths_at`). -/
example : WF (.dict [(.str "a", .list [.leaf 1, .tuple [.leaf 2, .leaf 3]]), (.str "b", .dict [])] : T Nat) = true ∧
    leaves (.dict [(.str "a", .list [.leaf 1, .tuple [.leaf 2, .leaf 3]]), (.str "b", .dict [])] : T Nat) = [1, 2, 3] ∧
    paths (.dict [(.str "a", .list [.leaf 1, .tuple [.leaf 2, .leaf 3]]), (.str "b", .dict [])] : T Nat) =
      [[.key (.str "a"), .idx 0], [.key (.str "a"), .idx 1, .idx 0], [.key (.str "a"), .idx 1, .idx 1]] ∧
    at? (.dict [(.str "a", .list [.leaf 1, .tuple [.leaf 2, .leaf 3]]), (.str "b", .dict [])] : T Nat)
      [.key (.str "a"), .idx 1, .idx 0] = some (.leaf 2) := ⟨rfl, rfl, rfl, rfl⟩

/-- the hypotheses of `C07_prefix_flatten` / `C07_return_stores` hold on a non-trivial instance:
declaration `{"a": n0, "b": [n1, n2]}`, returned `{"a": [7, 8], "b": [1, (2, 3)]}`. -/
example : WF (.dict [(.str "a", .leaf 0), (.str "b", .list [.leaf 1, .leaf 2])] : T Nat) = true ∧
    (leaves (.dict [(.str "a", .leaf 0), (.str "b", .list [.leaf 1, .leaf 2])] : T Nat)).Nodup ∧
    isPrefix false (struct (.dict [(.str "a", .leaf 0), (.str "b", .list [.leaf 1, .leaf 2])] : T Nat))
      (struct (.dict [(.str "a", .list [.leaf 7, .leaf 8]), (.str "b", .list [.leaf 1, .tuple [.leaf 2, .leaf 3]])] : T Nat)) = true ∧
    flattenUpTo (struct (.dict [(.str "a", .leaf 0), (.str "b", .list [.leaf 1, .leaf 2])] : T Nat))
      (.dict [(.str "a", .list [.leaf 7, .leaf 8]), (.str "b", .list [.leaf 1, .tuple [.leaf 2, .leaf 3]])] : T Nat) =
      some [.list [.leaf 7, .leaf 8], .leaf 1, .tuple [.leaf 2, .leaf 3]] :=
  ⟨rfl, by simp [leaves, leavesD, leavesL], rfl, rfl⟩

/-- and `C07_prefix_reject`'s hypothesis on misfits: too shallow, wrong container type, missing key, shorter list. -/
example : isPrefix false (struct (.dict [(.str "a", .leaf 0), (.str "b", .list [.leaf 1, .leaf 2])] : T Nat)) (struct (.leaf 5 : T Nat)) = false ∧
    isPrefix false (struct (.dict [(.str "a", .leaf 0), (.str "b", .list [.leaf 1, .leaf 2])] : T Nat))
      (struct (.dict [(.str "a", .leaf 0), (.str "b", .tuple [.leaf 1, .leaf 2])] : T Nat)) = false ∧
    isPrefix false (struct (.dict [(.str "a", .leaf 0), (.str "b", .list [.leaf 1, .leaf 2])] : T Nat))
      (struct (.dict [(.str "a", .leaf 0)] : T Nat)) = false ∧
    isPrefix false (struct (.dict [(.str "a", .leaf 0), (.str "b", .list [.leaf 1, .leaf 2])] : T Nat))
      (struct (.dict [(.str "a", .leaf 0), (.str "b", .list [.leaf 1])] : T Nat)) = false := ⟨rfl, rfl, rfl, rfl⟩

end PyTree
namespace TaskArgs
open PyTree

/-- the former F70 witness `{"a": PythonNode(value=1), "b": 2}` now arrives as `{"a": 1, "b": 2}`. -/
example : PyTree.bind (load false) (collectDep (.dict [(.str "a", .leaf (.pyNode 1 false)), (.str "b", .leaf (.value 2))] : T (Decl Nat Nat)))
    = .dict [(.str "a", .leaf (.val 1)), (.str "b", .leaf (.val 2))] := rfl

/-- a container of plain values is still stored in one node, and loads back to itself. -/
example : collectDep (.list [.leaf (.value 1), .leaf (.value 2)] : T (Decl Nat Nat)) = .leaf (.pyTree (.list [.leaf (.value 1), .leaf (.value 2)])) := rfl

end TaskArgs
end Pytask

namespace Pytask
namespace TaskArgs
open PyTree
variable {V P : Type}

/-- **kwargs_correct, per parameter.** In a collected task whose `depends_on[name]` is the collected
declaration `value` (and `name` is not a product), the function's parameter `name` receives
`value` with every leaf replaced by what its node loads to — same containers, same positions. -/
theorem C07_param_dependency (params : List String) (dependsOn produces : Dict (T (Node V P)))
    (hn : (Dict.keys produces).Nodup) (name : String) (value : T (Decl V P))
    (hd : Dict.get dependsOn name = some (collectDep value)) (hnp : Dict.contains produces name = false) :
    Dict.get (kwargsOf params dependsOn produces) name = some (map depObj value) := by
  rw [C07_kwargs_correct params dependsOn produces hn name, hnp, hd]
  simp [C07_dep_full value]

/-- A product parameter of the function receives its declared tree with paths as paths and nodes
as node objects (`is_product=True`), whatever `depends_on` holds under that name. -/
theorem C07_param_product (params : List String) (dependsOn produces : Dict (T (Node V P)))
    (hn : (Dict.keys produces).Nodup) (name : String) (value : T (Decl V P)) (nodes : T (Node V P)) (isReturn : Bool)
    (hp : Dict.get produces name = some nodes) (hc : collectProd isReturn value = .ok nodes) (hparam : name ∈ params) :
    Dict.get (kwargsOf params dependsOn produces) name = some (map prodObj value) := by
  rw [C07_kwargs_correct params dependsOn produces hn name]
  simp [hparam, Dict.contains, hp, C07_prod_correct value nodes isReturn hc]

/-- Products the function has no parameter for — in particular `return` — are not passed. -/
theorem C07_param_absent (params : List String) (dependsOn produces : Dict (T (Node V P)))
    (hn : (Dict.keys produces).Nodup) (name : String) (hparam : name ∉ params) (hd : Dict.get dependsOn name = none) :
    Dict.get (kwargsOf params dependsOn produces) name = none := by
  rw [C07_kwargs_correct params dependsOn produces hn name]
  simp [hparam, hd]

end TaskArgs
end Pytask

namespace Pytask
namespace TaskArgs
open PyTree
variable {V P : Type}

/-- **Dependencies, parse level** (`parse_dependencies_from_task_function`). If no parameter is given a
value both by `@task(kwargs=…)`/default and by a node annotation, parsing succeeds and
`depends_on[name]` is the collected declaration found for `name` — `{**defaults, **task_kwargs}`
first (minus `produces`), the node annotation otherwise — for every name that is neither
`Product`-annotated nor `return`; other names are absent. -/
theorem C07_parseDeps (f : Func V P)
    (hok : f.nodeAnnot.any (fun kv => Dict.contains (Dict.erase f.merged "produces") kv.1) = false) :
    ∃ d, parseDeps f = .ok d ∧ ∀ name,
      Dict.get d name =
        if (f.productAnnot ++ ["return"]).contains name then none
        else ((Dict.get (Dict.erase f.merged "produces") name).or (Dict.get f.nodeAnnot name)).map collectDep := by
  refine ⟨_, by simp only [parseDeps, hok]; rfl, ?_⟩
  intro name
  rw [Dict.get_map_vals collectDep, Dict.get_filter_key (fun k => !(f.productAnnot ++ ["return"]).contains k),
    Dict.get_append]
  by_cases h1 : name ∈ f.productAnnot <;> by_cases h2 : name = "return" <;> simp [h1, h2]

/-- **Products, parse level, without `@task(produces=…)`** (`parse_products_from_task_function`).
When no name is defined twice and the return declaration holds no plain value, parsing succeeds
and `produces[name]` is the collected `productValue` of every visited product name (the
`Product`-annotated parameters, `produces`, `return`) and nothing else. -/
theorem C07_parseProds (pv : PyVals V) (f : Func V P) (hdeco : f.produces = none)
    (htwice : (f.productNames.filter (fun n => Dict.contains f.merged n || Dict.contains f.nodeAnnot n)).any
        (fun n => Dict.contains f.merged n && Dict.contains f.nodeAnnot n) = false)
    (hret : (f.productNames.filter (fun n => Dict.contains f.merged n || Dict.contains f.nodeAnnot n)).any
        (fun n => n == "return" && (leaves (f.productValue pv n)).any isPlainValue) = false) :
    ∃ d, parseProds pv f = .ok d ∧ ∀ name,
      Dict.get d name =
        if name ∈ f.productNames ∧ (Dict.contains f.merged name || Dict.contains f.nodeAnnot name) = true
        then some (map collectLeaf (f.productValue pv name)) else none := by
  refine ⟨_, by simp only [parseProds, htwice, hret, hdeco]; rfl, ?_⟩
  intro name
  rw [Dict.get_foldl_set (fun n => mapWithPath (fun _ d => collectLeaf d) (f.productValue pv n))]
  simp only [List.mem_filter, mapWithPath_const, Dict.get]

/-- The value collected for a product name is the declared one, `{**defaults, **task_kwargs}[name]`,
also when it is falsy (`produces=[]`; fix 123c420 removed finding F72). -/
theorem C07_productValue (pv : PyVals V) (f : Func V P) (name : String) (v : T (Decl V P))
    (h : Dict.get f.merged name = some v) : f.productValue pv name = v := by
  simp [Func.productValue, h, Generated.productFalsyFallsBack]

end TaskArgs
end Pytask

namespace Pytask
namespace TaskArgs
open PyTree
variable {V P : Type}

/-- **Products, parse level, with `@task(produces=…)`**: the `return` entry is *added* to the products
parsed from the parameters (fix 2e11e34 removed finding F71, where it replaced them). -/
theorem C07_parseProds_decorator (pv : PyVals V) (f : Func V P) (tp : T (Decl V P)) (c : T (Node V P))
    (hdeco : f.produces = some tp) (ht : isFalsy pv tp = false) (hc : collectProd true tp = .ok c)
    (hr : Dict.contains f.nodeAnnot "return" = false)
    (htwice : (f.productNames.filter (fun n => Dict.contains f.merged n || Dict.contains f.nodeAnnot n)).any
        (fun n => Dict.contains f.merged n && Dict.contains f.nodeAnnot n) = false)
    (hret : (f.productNames.filter (fun n => Dict.contains f.merged n || Dict.contains f.nodeAnnot n)).any
        (fun n => n == "return" && (leaves (f.productValue pv n)).any isPlainValue) = false) :
    ∃ out, parseProds pv f = .ok (Dict.set out "return" c) ∧ ∀ name,
      Dict.get out name =
        if name ∈ f.productNames ∧ (Dict.contains f.merged name || Dict.contains f.nodeAnnot name) = true
        then some (map collectLeaf (f.productValue pv name)) else none := by
  refine ⟨_, by simp only [parseProds, htwice, hret, hdeco, ht, hc, hr, Generated.taskProducesReplaces]; rfl, ?_⟩
  intro name
  rw [Dict.get_foldl_set (fun n => mapWithPath (fun _ d => collectLeaf d) (f.productValue pv n))]
  simp only [List.mem_filter, mapWithPath_const, Dict.get]

end TaskArgs
end Pytask

namespace Pytask
namespace TaskArgs
open PyTree
variable {V P : Type}

/-- What a successful `parse_products_from_task_function` returns: distinct keys, and under every
name other than `return` the collected declared value of a visited product name. -/
theorem C07_parseProds_ok (pv : PyVals V) (f : Func V P) (pr : Dict (T (Node V P))) (h : parseProds pv f = .ok pr) :
    (Dict.keys pr).Nodup ∧ ∀ name, name ≠ "return" →
      Dict.get pr name =
        if name ∈ f.productNames ∧ (Dict.contains f.merged name || Dict.contains f.nodeAnnot name) = true
        then some (map collectLeaf (f.productValue pv name)) else none := by
  have hout : ∀ name, Dict.get ((f.productNames.filter (fun n => Dict.contains f.merged n || Dict.contains f.nodeAnnot n)).foldl
      (fun acc n => Dict.set acc n (mapWithPath (fun _ d => collectLeaf d) (f.productValue pv n))) []) name =
      if name ∈ f.productNames ∧ (Dict.contains f.merged name || Dict.contains f.nodeAnnot name) = true
      then some (map collectLeaf (f.productValue pv name)) else none := by
    intro name
    rw [Dict.get_foldl_set (fun n => mapWithPath (fun _ d => collectLeaf d) (f.productValue pv n))]
    simp only [List.mem_filter, mapWithPath_const, Dict.get]
  have hnd := Dict.keys_foldl_set_nodup (fun n => mapWithPath (fun _ d => collectLeaf d) (f.productValue pv n))
    (f.productNames.filter (fun n => Dict.contains f.merged n || Dict.contains f.nodeAnnot n)) [] (by simp [Dict.keys])
  unfold parseProds at h
  dsimp only at h
  split at h
  · cases h
  · split at h
    · cases h
    · split at h
      · simp only [Except.ok.injEq] at h; subst h
        exact ⟨hnd, fun name _ => hout name⟩
      · split at h
        · simp only [Except.ok.injEq] at h; subst h
          exact ⟨hnd, fun name _ => hout name⟩
        · split at h
          · cases h
          · split at h
            · cases h
            · simp only [Generated.taskProducesReplaces, Bool.false_eq_true, ↓reduceIte, Except.ok.injEq] at h
              subst h
              refine ⟨Dict.keys_set_nodup _ _ _ hnd, ?_⟩
              intro name hne
              rw [Dict.get_set]
              simp only [Ne.symm hne, ↓reduceIte]
              exact hout name

/-- `{**signature_defaults, **task_kwargs}[p.name]` is the default of `p` when `@task(kwargs=…)` does not mention it. -/
theorem C07_merged_default (f : Func V P) (p : Param V P) (hn : f.paramNames.Nodup) (hp : p ∈ f.params)
    (hk : Dict.get f.kwargs p.name = none) : Dict.get f.merged p.name = p.default := by
  unfold Func.merged
  rw [Dict.get_update_none _ _ _ hk]
  exact get_filterMap_params (fun q => q.default) f.params hn p hp

/-- a `Product`-annotated parameter, and the parameter called `produces`, are visited by the product loop. -/
theorem C07_mem_productNames (f : Func V P) (p : Param V P) (hp : p ∈ f.params)
    (hprod : p.product = true ∨ p.name = "produces") : p.name ∈ f.productNames := by
  have h1 : p.name ∈ (if f.paramNames.contains "produces" && !f.productAnnot.contains "produces"
      then f.productAnnot ++ ["produces"] else f.productAnnot) := by
    by_cases hpa : p.name ∈ f.productAnnot
    · split <;> simp [hpa]
    · rcases hprod with h | h
      · exact absurd (by simp only [Func.productAnnot, List.mem_map, List.mem_filter]; exact ⟨p, ⟨hp, h⟩, rfl⟩) hpa
      · have hc : "produces" ∈ f.paramNames := by
          simp only [Func.paramNames, List.mem_map]
          exact ⟨p, hp, h⟩
        rw [h] at hpa
        simp [hc, hpa, h]
  unfold Func.productNames
  dsimp only
  split
  · exact List.mem_append_left _ h1
  · exact h1

/-- **kwargs_correct, products (full).** For every task function whose collection succeeds and whose
call is possible, a product parameter — `Annotated[..., Product]` or the parameter `produces` —
declared by a signature default `d` is bound to `d` with paths as paths and nodes as node objects,
whatever other declaration forms the function mixes in: `@task(produces=…)` (finding F71, fixed by
2e11e34), empty containers (F72, fixed by 123c420), return annotations, `@task(kwargs=…)` for
other parameters. Hypotheses `hn`, `hret` are guaranteed by Python (distinct parameter names,
`return` is a keyword). -/
theorem C07_products_full (pv : PyVals V) (f : Func V P) (t : Task V P) (r : Dict (T (Obj V P))) (p : Param V P)
    (hn : f.paramNames.Nodup) (hret : "return" ∉ f.paramNames)
    (hc : collectTask pv f = .ok t) (hr : received f t = .ok r) (hp : p ∈ f.params)
    (hprod : p.product = true ∨ p.name = "produces") (d : T (Decl V P)) (hd : p.default = some d)
    (hk : Dict.get f.kwargs p.name = none) :
    Dict.get r p.name = some (map prodObj d) := by
  unfold collectTask at hc
  split at hc
  · cases hc
  · rename_i dd _
    split at hc
    · cases hc
    · rename_i pr hpr
      simp only [Except.ok.injEq] at hc; subst hc
      obtain ⟨hnd, hget⟩ := C07_parseProds_ok pv f pr hpr
      have hne : p.name ≠ "return" := by
        intro heq; apply hret; rw [← heq]; exact List.mem_map.2 ⟨p, hp, rfl⟩
      have hm : Dict.get f.merged p.name = some d := by rw [C07_merged_default f p hn hp hk, hd]
      have hpg : Dict.get pr p.name = some (map collectLeaf d) := by
        rw [hget p.name hne, C07_productValue pv f p.name d hm]
        simp [C07_mem_productNames f p hp hprod, Dict.contains, hm]
      have hkw : Dict.get (kwargsOf f.paramNames dd pr) p.name = some (map prodObj d) := by
        rw [C07_kwargs_correct f.paramNames dd pr hnd p.name]
        have hin : p.name ∈ f.paramNames := List.mem_map.2 ⟨p, hp, rfl⟩
        have e : PyTree.bind (load true) (map collectLeaf d) = map prodObj d := by
          rw [PyTree.bind_map]
          simp only [load_collectLeaf_prod]
          rw [bind_leaf]
        simp [hin, Dict.contains, hpg, e]
      unfold received at hr
      dsimp only at hr
      split at hr
      · simp only [Except.ok.injEq] at hr; subst hr
        rw [get_filterMap_params (fun q => bound (kwargsOf f.paramNames dd pr) q) f.params hn p hp]
        simp [bound, hkw]
      · cases hr

end TaskArgs
end Pytask

namespace Pytask
namespace TaskArgs
open PyTree
variable {V P : Type}

theorem C07_param_of_name (params : List (Param V P)) (hn : (params.map (·.name)).Nodup) (p q : Param V P)
    (hp : p ∈ params) (hq : q ∈ params) (h : q.name = p.name) : q = p := by
  induction params with
  | nil => simp at hp
  | cons a rest ih =>
    simp only [List.map_cons, List.nodup_cons] at hn
    rcases List.mem_cons.1 hp with rfl | hp' <;> rcases List.mem_cons.1 hq with rfl | hq'
    · rfl
    · exact absurd (List.mem_map.2 ⟨q, hq', h⟩) hn.1
    · exact absurd (List.mem_map.2 ⟨p, hp', h.symm⟩) hn.1
    · exact ih hn.2 hp' hq'

theorem C07_productNames_sub (f : Func V P) (name : String) (h : name ∈ f.productNames) :
    name ∈ f.productAnnot ∨ name = "produces" ∨ name = "return" := by
  unfold Func.productNames at h
  dsimp only at h
  split at h <;> split at h <;> grind

/-- **kwargs_correct, dependencies (full).** For every task function whose collection succeeds and
whose call is possible, a parameter that is not a product and is declared by a signature default
`d` is bound to `d` with every leaf replaced by the value loaded from its node — containers and
positions preserved — whatever other declaration forms the function uses. -/
theorem C07_dependencies_full (pv : PyVals V) (f : Func V P) (t : Task V P) (r : Dict (T (Obj V P))) (p : Param V P)
    (hn : f.paramNames.Nodup) (hret : "return" ∉ f.paramNames)
    (hc : collectTask pv f = .ok t) (hr : received f t = .ok r) (hp : p ∈ f.params)
    (hnprod : p.product = false) (hnname : p.name ≠ "produces") (d : T (Decl V P)) (hd : p.default = some d)
    (hk : Dict.get f.kwargs p.name = none) :
    Dict.get r p.name = some (map depObj d) := by
  unfold collectTask at hc
  split at hc
  · cases hc
  · rename_i dd hdd
    split at hc
    · cases hc
    · rename_i pr hpr
      simp only [Except.ok.injEq] at hc; subst hc
      obtain ⟨hnd, hget⟩ := C07_parseProds_ok pv f pr hpr
      have hne : p.name ≠ "return" := by
        intro heq; apply hret; rw [← heq]; exact List.mem_map.2 ⟨p, hp, rfl⟩
      have hm : Dict.get f.merged p.name = some d := by rw [C07_merged_default f p hn hp hk, hd]
      have hnpa : p.name ∉ f.productAnnot := by
        intro hmem
        simp only [Func.productAnnot, List.mem_map, List.mem_filter] at hmem
        obtain ⟨q, ⟨hq, hqp⟩, hqn⟩ := hmem
        have := C07_param_of_name f.params hn p q hp hq hqn
        subst this
        simp [hnprod] at hqp
      have hpg : Dict.get pr p.name = none := by
        rw [hget p.name hne]
        have : p.name ∉ f.productNames := by
          intro hmem
          rcases C07_productNames_sub f p.name hmem with h | h | h
          · exact hnpa h
          · exact hnname h
          · exact hne h
        simp [this]
      have hdg : Dict.get dd p.name = some (collectDep d) := by
        cases hany : f.nodeAnnot.any (fun kv => Dict.contains (Dict.erase f.merged "produces") kv.1) with
        | true => simp [parseDeps, hany] at hdd
        | false =>
          obtain ⟨d', h1, h2⟩ := C07_parseDeps f hany
          rw [h1] at hdd
          simp only [Except.ok.injEq] at hdd; subst hdd
          rw [h2 p.name]
          have he : Dict.get (Dict.erase f.merged "produces") p.name = some d := by
            unfold Dict.erase
            rw [Dict.get_filter_key (fun k => decide (k ≠ "produces")) f.merged p.name]
            simp [hnname, hm]
          simp [hnpa, hne, he]
      have hkw : Dict.get (kwargsOf f.paramNames dd pr) p.name = some (map depObj d) := by
        rw [C07_kwargs_correct f.paramNames dd pr hnd p.name]
        simp [Dict.contains, hpg, hdg, C07_dep_full d]
      unfold received at hr
      dsimp only at hr
      split at hr
      · simp only [Except.ok.injEq] at hr; subst hr
        rw [get_filterMap_params (fun q => bound (kwargsOf f.paramNames dd pr) q) f.params hn p hp]
        simp [bound, hkw]
      · cases hr

/-- non-vacuity of `C07_products_full` / `C07_dependencies_full`: the former F71 witness —
`@task(produces=ret) def f(path: Annotated[Path, Product] = a, x=[1, b])` — is collected, can be called, and
binds `path` to the resolved path and `x` to the loaded list. -/
example : let f : Func String String :=
      ⟨[⟨"path", some (.leaf (.path "a")), none, true⟩, ⟨"x", some (.list [.leaf (.value "1"), .leaf (.path "b")]), none, false⟩],
        none, [], some (.leaf (.path "ret"))⟩
    ∃ t r, collectTask ⟨"None", fun v => v == "None"⟩ f = .ok t ∧ received f t = .ok r ∧
      Dict.get t.produces "path" = some (.leaf (.pathNode "a")) ∧
      r = [("path", .leaf (.path "a")), ("x", .list [.leaf (.val "1"), .leaf (.path "b")])] :=
  ⟨_, _, rfl, rfl, rfl, rfl⟩

/-- the former F72 witness: `def f(produces=[])` receives `[]`. -/
example : let f : Func String String := ⟨[⟨"produces", some (.list []), none, false⟩], none, [], none⟩
    ∃ t r, collectTask ⟨"None", fun v => v == "None"⟩ f = .ok t ∧ received f t = .ok r ∧ r = [("produces", .list [])] :=
  ⟨_, _, rfl, rfl, rfl⟩

end TaskArgs
end Pytask

namespace Pytask
namespace TaskArgs
open PyTree
variable {V P : Type}

/-- **Task generators receive the same arguments as ordinary tasks.** The separate kwargs loop of
`provisional.pytask_execute_task` loads dependencies with `is_product=False`, products with
`is_product=True` and only for parameters of the function — so every statement above about
`kwargsOf` / `received` (in particular `C07_dependencies_full`, `C07_products_full`) holds for
`@task(is_generator=True)` functions as well. -/
theorem C07_generator_kwargs (params : List String) (dependsOn produces : Dict (T (Node V P))) :
    kwargsOfGen params dependsOn produces = kwargsOf params dependsOn produces := by
  simp [kwargsOfGen, kwargsOf, Generated.generatorDepsAsProducts, Generated.generatorProductsAsProducts,
    Generated.generatorProductsNeedParameter, Generated.productsNeedParameter]

theorem C07_generator_received (f : Func V P) (t : Task V P) : receivedGen f t = received f t := by
  simp [receivedGen, received, C07_generator_kwargs]

end TaskArgs
end Pytask
