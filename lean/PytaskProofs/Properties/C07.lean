import PytaskProofs.Lemmas.PyTree
import PytaskProofs.Lemmas.TaskArgs
/-!
# C07 — task functions get exactly the declared values; returns land in declared nodes

Property theorems only (helper lemmas: `Lemmas/PyTree.lean`, `Lemmas/TaskArgs.lean`).
`T α` models the pytrees optree handles for pytask (`list`, `tuple`, `dict` with sorted keys,
everything else — `None` included — a leaf); `TaskArgs` models the collection of a task function's
declarations, the construction of `kwargs`, and the handling of the return value.
-/
namespace Pytask
namespace PyTree
variable {α β γ : Type}

/-! ## tree level -/

/-- **unflatten_flatten.** Flattening a tree and rebuilding it from its structure and leaves gives
the tree back: no leaf changes position in `tree_flatten` / `unflatten`. -/
theorem C07_unflatten_flatten (t : T α) : unflatten (struct t) (leaves t) = some t := by
  have := unflattenAux_map (fun _ : α => ()) t []
  simp only [List.append_nil] at this
  simp [unflatten, struct, this]

/-- Conversely, whatever `unflatten` builds has the requested structure and exactly the given
leaves, in order (so `unflatten` fails unless the number of leaves is exact). -/
theorem C07_unflatten_sound (s : T β) (l : List α) (t : T α) (h : unflatten s l = some t) :
    struct t = struct s ∧ leaves t = l := by
  unfold unflatten at h
  split at h
  · rename_i t' h'
    simp only [Option.some.injEq] at h; subst h
    have := unflattenAux_sound.1 s l t' [] h'
    exact ⟨this.1, by simpa using this.2.symm⟩
  · simp at h

/-- **leaves_map.** `tree_map(f, t)` applies `f` leaf by leaf, in order, and keeps the container
structure. -/
theorem C07_leaves_map (f : α → β) (t : T α) :
    leaves (map f t) = (leaves t).map f ∧ struct (map f t) = struct t :=
  ⟨leaves_map f t, struct_map f t⟩

/-- **paths_at.** The `i`-th path reported for a (well-formed) tree leads to its `i`-th leaf. -/
theorem C07_paths_at (t : T α) (hwf : WF t = true) (i : Nat) (hi : i < (paths t).length) :
    at? t ((paths t)[i]) = some (.leaf ((leaves t)[i]'(by rw [← length_paths]; exact hi))) := by
  apply paths_at_aux.1 t hwf
  rw [List.mem_iff_getElem]
  exact ⟨i, by simp [List.length_zip, ← length_paths]; exact hi, by simp⟩

/-- **tree_map_with_path** hands every leaf exactly its own position and keeps the structure
(this is how `collect_utils` tells each collected node where it sits in the argument). -/
theorem C07_mapWithPath (f : Path → α → β) (t : T α) :
    leaves (mapWithPath f t) = List.zipWith f (paths t) (leaves t) ∧ struct (mapWithPath f t) = struct t :=
  ⟨leaves_mapWithPath t f, struct_mapWithPath t f⟩

/-- `flatten_up_to` succeeds exactly when the (non-strict) prefix test passes. -/
theorem C07_prefix_iff_flatten (s : T α) (o : T β) :
    isPrefix false (struct s) (struct o) = true ↔ ∃ vs, flattenUpTo (struct s) o = some vs := by
  simp only [isPrefix, Bool.false_and, Bool.not_false, Bool.and_true, struct, isPrefixNS_map, flattenUpTo_map]
  rw [← flattenUpTo_isSome, Option.isSome_iff_exists]

/-- **prefix_flatten.** If the declared structure is a prefix of the structure of the returned
value, `flatten_up_to` yields one value per declared leaf, and value `i` is the subtree of the
returned value at the position of declared leaf `i`. -/
theorem C07_prefix_flatten (s : T α) (out : T β) (hwf : WF s = true)
    (hp : isPrefix false (struct s) (struct out) = true) :
    ∃ vs, flattenUpTo (struct s) out = some vs ∧ vs.length = (leaves s).length ∧
      ∀ (i : Nat) (h1 : i < (paths s).length) (h2 : i < vs.length), at? out ((paths s)[i]) = some (vs[i]) := by
  obtain ⟨vs, hvs⟩ := (C07_prefix_iff_flatten s out).1 hp
  refine ⟨vs, hvs, ?_, ?_⟩
  · simp only [struct, flattenUpTo_map] at hvs
    rw [(flattenUpTo_at_aux.1 s hwf out vs hvs).1, length_paths]
  · intro i h1 h2
    simp only [struct, flattenUpTo_map] at hvs
    apply (flattenUpTo_at_aux.1 s hwf out vs hvs).2
    rw [List.mem_iff_getElem]
    exact ⟨i, by simp [List.length_zip]; omega, by simp⟩

/-- The values cut out by `flatten_up_to` partition the leaves of the returned value, in order:
every returned leaf goes to exactly one product. -/
theorem C07_flatten_partition (s : T α) (out : T β) (vs : List (T β)) (h : flattenUpTo s out = some vs) :
    vs.flatMap leaves = leaves out :=
  flattenUpTo_leaves.1 s out vs h

/-- A leaf of the declaration matches any value; equal shapes are prefixes of each other. -/
theorem C07_prefix_refl (s : T α) (o : T β) (h : sameShape s o = true) : isPrefix false s o = true := by
  simp [isPrefix, sameShape_isPrefixNS s o h]

end PyTree

namespace TaskArgs
open PyTree
variable {V P : Type}

/-! ## arguments: what a parameter receives -/

/-- **collapse_sound.** When every leaf of a declared dependency is a plain Python value, the
argument is stored in one `PythonNode` (or collected leaf by leaf) and loading gives back the
declared value unchanged. -/
theorem C07_collapse_sound (value : T (Decl V P)) (h : ∀ d ∈ leaves value, isPlainValue d = true) :
    PyTree.bind (load false) (collectDep value) = map depObj value := by
  unfold collectDep
  simp only [mapWithPath_const]
  split
  · simp only [PyTree.bind, load, Bool.false_eq_true, ↓reduceIte]
    rw [← bind_leaf, ← bind_leaf]
    apply PyTree.bind_congr
    intro d hd
    have := h d hd
    cases d <;> simp_all [isPlainValue, rawObj, depObj]
  · rw [PyTree.bind_map]
    simp only [load_collectLeaf_dep]
    exact bind_leaf depObj value

/-- **kwargs_correct, per dependency (partial).** Outside the class of finding F70 a dependency
parameter receives the declared tree with every leaf replaced by the value loaded from its node:
same containers, same positions. -/
theorem C07_dep_partial (value : T (Decl V P)) (h : f70Class value = false) :
    PyTree.bind (load false) (collectDep value) = map depObj value := by
  unfold collectDep
  simp only [mapWithPath_const]
  split
  · rename_i hc
    simp only [isLeafTree_map, leaves_map, List.all_map, Bool.and_eq_true] at hc
    have h' : (∀ x ∈ leaves value, isUnhashedPy (collectLeaf x) = true) →
        ∀ x ∈ leaves value, isPlainValue x = true := by
      simpa [f70Class, hc.1] using h
    have hall := h' (by simpa using hc.2)
    have := C07_collapse_sound value hall
    unfold collectDep at this
    simp only [mapWithPath_const, isLeafTree_map, leaves_map, List.all_map, hc.1, hc.2, Bool.and_self,
      ↓reduceIte] at this
    exact this
  · rw [PyTree.bind_map]
    simp only [load_collectLeaf_dep]
    exact bind_leaf depObj value

/-- The full statement (every declared dependency, no exception) … -/
def C07_dep_full : Prop :=
  ∀ (value : T (Decl Nat Nat)), PyTree.bind (load false) (collectDep value) = map depObj value

/-- … is false of the current code (finding F70): `x={"a": PythonNode(value=1), "b": 2}` arrives
as `{"a": <the PythonNode object>, "b": 2}`. -/
theorem C07_dep_full_false : ¬ C07_dep_full := by
  intro h
  have := h (.dict [(.str "a", .leaf (.pyNode 1 false)), (.str "b", .leaf (.value 2))])
  simp [collectDep, mapWithPath, mapWithPathD, isLeafTree, leaves, leavesD, collectLeaf, isUnhashedPy, PyTree.bind, load,
    map, mapD, rawObj, depObj] at this

/-- **kwargs_correct, per product.** A product parameter receives the declared tree with paths as
(resolved) paths and every node as the node object itself. -/
theorem C07_prod_correct (value : T (Decl V P)) (nodes : T (Node V P)) (isReturn : Bool)
    (h : collectProd isReturn value = .ok nodes) :
    PyTree.bind (load true) nodes = map prodObj value := by
  unfold collectProd at h
  split at h
  · cases h
  · simp only [Except.ok.injEq] at h
    subst h
    rw [mapWithPath_const, bind_map]
    simp only [load_collectLeaf_prod]
    exact bind_leaf prodObj value

/-- Positions are preserved by loading: at the position of leaf `i` of the collected node tree
sits exactly what node `i` loads to (`tree_map(load, nodes)`, also when a load returns a container). -/
theorem C07_load_positions (isProduct : Bool) (nodes : T (Node V P)) :
    leaves (PyTree.bind (load isProduct) nodes) = (leaves nodes).flatMap (fun n => leaves (load isProduct n)) :=
  leaves_bind _ nodes

/-- **kwargs_correct, dict level** (`execute.py:199-207`). The keyword arguments are: for a name in
`task.produces` that is a parameter of the function, the product tree loaded with
`is_product=True`; otherwise, for a name in `task.depends_on`, the dependency tree loaded leaf by
leaf; nothing else. -/
theorem C07_kwargs_correct (params : List String) (dependsOn produces : Dict (T (Node V P)))
    (hn : (Dict.keys produces).Nodup) (name : String) :
    Dict.get (kwargsOf params dependsOn produces) name =
      if params.contains name && Dict.contains produces name then (Dict.get produces name).map (PyTree.bind (load true))
      else (Dict.get dependsOn name).map (PyTree.bind (load false)) := by
  unfold kwargsOf
  simp only [Generated.productsNeedParameter, Bool.not_true, Bool.false_or]
  rw [Dict.get_update _ _ (by rw [Dict.keys_mapVals]; exact Dict.keys_filter_nodup _ _ hn)]
  rw [Dict.get_mapVals, Dict.get_mapVals, Dict.get_filter_key (fun k => params.contains k)]
  by_cases hp : name ∈ params <;> cases hg : Dict.get produces name <;> simp [hp, hg, Dict.contains]

/-- The call binds every parameter to its keyword argument when there is one. -/
theorem C07_bound_kw (kw : Dict (T (Obj V P))) (p : Param V P) (v : T (Obj V P)) (h : Dict.get kw p.name = some v) :
    bound kw p = some v := by
  simp [bound, h]

/-! ## the return value -/

section
variable {N W : Type} [DecidableEq N]

/-- **prefix_reject.** A returned value whose structure the declaration is not a prefix of makes the
task fail and stores nothing: the store is unchanged. -/
theorem C07_prefix_reject (isProv : N → Bool) (canSave : N → T W → Bool) (ret : T N) (out : T W) (s : Store N W)
    (h : isPrefix false (struct ret) (struct out) = false) :
    executeReturn isProv canSave ret out s = (s, false) := by
  simp [executeReturn, Generated.returnPrefixStrict, h]

/-- Conversely the prefix test is the *only* structural reason to fail: if it passes,
`flatten_up_to` cannot raise. -/
theorem C07_prefix_accept (isProv : N → Bool) (canSave : N → T W → Bool) (ret : T N) (out : T W) (s : Store N W)
    (h : isPrefix false (struct ret) (struct out) = true) :
    ∃ vs, flattenUpTo (struct ret) out = some vs ∧
      executeReturn isProv canSave ret out s = saveAll isProv canSave ((leaves ret).zip vs) s := by
  obtain ⟨vs, hvs⟩ := (C07_prefix_iff_flatten ret out).1 h
  exact ⟨vs, hvs, by simp [executeReturn, Generated.returnPrefixStrict, h, hvs]⟩

/-- **Returns land in the declared nodes.** If the declared structure fits, the product nodes are
distinct, none is provisional and every `save` is accepted, the task succeeds, product node `i`
holds the subtree of the returned value at the position of node `i` in the declaration, and no
other node changes. -/
theorem C07_return_stores (isProv : N → Bool) (canSave : N → T W → Bool) (ret : T N) (out : T W) (s : Store N W)
    (hwf : WF ret = true) (hnd : (leaves ret).Nodup)
    (hp : isPrefix false (struct ret) (struct out) = true)
    (hprov : ∀ n ∈ leaves ret, isProv n = false) (hsave : ∀ n v, canSave n v = true) :
    (executeReturn isProv canSave ret out s).2 = true ∧
    (∀ (i : Nat) (h1 : i < (leaves ret).length) (h2 : i < (paths ret).length),
        (executeReturn isProv canSave ret out s).1 ((leaves ret)[i]) = at? out ((paths ret)[i])) ∧
    (∀ n, n ∉ leaves ret → (executeReturn isProv canSave ret out s).1 n = s n) := by
  obtain ⟨vs, hvs, hlen, hat⟩ := C07_prefix_flatten ret out hwf hp
  obtain ⟨vs', hvs', hex⟩ := C07_prefix_accept isProv canSave ret out s hp
  rw [hvs] at hvs'; simp only [Option.some.injEq] at hvs'; subst hvs'
  rw [hex]
  have hmap : ((leaves ret).zip vs).map (·.1) = leaves ret := by
    rw [List.map_fst_zip]; omega
  obtain ⟨ok, st⟩ := saveAll_success isProv canSave ((leaves ret).zip vs) s (by rw [hmap]; exact hnd)
    (fun nv h => ⟨hprov nv.1 (List.of_mem_zip h).1, hsave _ _⟩)
  refine ⟨ok, ?_, ?_⟩
  · intro i h1 h2
    have hi : i < vs.length := by omega
    rw [hat i h2 hi]
    have := st ((leaves ret)[i], vs[i]) (by
      rw [List.mem_iff_getElem]
      exact ⟨i, by simp [List.length_zip]; omega, by simp⟩)
    simpa using this
  · intro n hn
    exact saveAll_outside isProv canSave _ s n (by rw [hmap]; exact hn)

/-- **Nothing is stored in a wrong place — whatever the outcome** (success, structural misfit, or
a `save` that raises half-way): afterwards every node holds either what it held before or the
subtree of the returned value at one of *its own* positions in the declaration. -/
theorem C07_return_nowrong (isProv : N → Bool) (canSave : N → T W → Bool) (ret : T N) (out : T W) (s : Store N W)
    (hwf : WF ret = true) (n : N) :
    (executeReturn isProv canSave ret out s).1 n = s n ∨
    ∃ (i : Nat) (h1 : i < (leaves ret).length) (h2 : i < (paths ret).length),
      (leaves ret)[i] = n ∧ (executeReturn isProv canSave ret out s).1 n = at? out ((paths ret)[i]) := by
  by_cases hp : isPrefix false (struct ret) (struct out) = true
  · obtain ⟨vs, hvs, hlen, hat⟩ := C07_prefix_flatten ret out hwf hp
    obtain ⟨vs', hvs', hex⟩ := C07_prefix_accept isProv canSave ret out s hp
    rw [hvs] at hvs'; simp only [Option.some.injEq] at hvs'; subst hvs'
    rw [hex]
    rcases saveAll_inv isProv canSave ((leaves ret).zip vs) s n with h | ⟨v, hv, he⟩
    · exact Or.inl h
    · right
      rw [List.mem_iff_getElem] at hv
      obtain ⟨i, hi, hiv⟩ := hv
      simp only [List.length_zip] at hi
      have h1 : i < (leaves ret).length := by omega
      have h2 : i < (paths ret).length := by rw [length_paths]; exact h1
      have h3 : i < vs.length := by omega
      simp only [List.getElem_zip, Prod.mk.injEq] at hiv
      refine ⟨i, h1, h2, hiv.1, ?_⟩
      rw [he, hat i h2 h3, hiv.2]
  · left
    simp only [Bool.not_eq_true] at hp
    rw [C07_prefix_reject isProv canSave ret out s hp]

end

/-! ## the declaration forms mixed (findings F71, F72) -/

/-- The full statement for products: with every supported way of declaring products, each product
parameter of the function is bound to its declared tree (`prodObj` leaf-wise)… -/
def C07_products_full : Prop :=
  ∀ (f : Func String String) (t : Task String String) (r : Dict (T (Obj String String))) (p : Param String String),
    collectTask ⟨"None", fun v => v == "None"⟩ f = .ok t → received f t = .ok r → p ∈ f.params →
    (p.product = true ∨ p.name = "produces") → ∀ d, p.default = some d → Dict.get f.kwargs p.name = none → p.node = none →
    Dict.get r p.name = some (map prodObj d)

/-- … is false of the current code in two ways. F71: `@task(produces=…)` re-binds the products dict,
so `path: Annotated[Path, Product] = Path("a.txt")` is never collected and the function receives
the raw, unresolved default. -/
theorem C07_products_full_false_F71 : ¬ C07_products_full := by
  intro h
  have := h ⟨[⟨"path", some (.leaf (.path "a")), none, true⟩], none, [], some (.leaf (.path "ret"))⟩
    ⟨[], [("return", .leaf (.pathNode "ret"))]⟩ [("path", .leaf (.rawPath "a"))]
    ⟨"path", some (.leaf (.path "a")), none, true⟩ (by rfl) (by rfl) (by simp) (by simp)
    (.leaf (.path "a")) rfl (by simp [Dict.get]) rfl
  simp [Dict.get, map, prodObj] at this

/-- F72: `value = kwargs.get(name) or …` tests the declared value for truthiness, so
`produces=[]` is collected as `PythonNode(value=None)` and that node object is what the function gets. -/
theorem C07_products_full_false_F72 : ¬ C07_products_full := by
  intro h
  have := h ⟨[⟨"produces", some (.list []), none, false⟩], none, [], none⟩
    ⟨[], [("produces", .leaf (.pyNode "None" false))]⟩ [("produces", .leaf (.node (.pyNode "None" false)))]
    ⟨"produces", some (.list []), none, false⟩ (by rfl) (by rfl) (by simp) (by simp)
    (.list []) rfl (by simp [Dict.get]) rfl
  simp [Dict.get, map, mapL] at this

end TaskArgs

/-! ## non-vacuity -/
namespace PyTree

/-- `None` is a leaf for pytask (`none_is_leaf=True` in every wrapper of `tree_util.py`). -/
example : leaves (noneTree (0 : Nat)) = [0] := by simp [noneTree, Generated.treeNoneIsLeaf, leaves]

/-- a nested declaration `{"a": [x, (y, z)], "b": {}}`: well-formed, three leaves at three distinct positions
(hypotheses of `C07_paths_at`). -/
example : WF (.dict [(.str "a", .list [.leaf 1, .tuple [.leaf 2, .leaf 3]]), (.str "b", .dict [])] : T Nat) = true ∧
    leaves (.dict [(.str "a", .list [.leaf 1, .tuple [.leaf 2, .leaf 3]]), (.str "b", .dict [])] : T Nat) = [1, 2, 3] ∧
    paths (.dict [(.str "a", .list [.leaf 1, .tuple [.leaf 2, .leaf 3]]), (.str "b", .dict [])] : T Nat) =
      [[.key (.str "a"), .idx 0], [.key (.str "a"), .idx 1, .idx 0], [.key (.str "a"), .idx 1, .idx 1]] ∧
    at? (.dict [(.str "a", .list [.leaf 1, .tuple [.leaf 2, .leaf 3]]), (.str "b", .dict [])] : T Nat)
      [.key (.str "a"), .idx 1, .idx 0] = some (.leaf 2) := ⟨rfl, rfl, rfl, rfl⟩

/-- the hypotheses of `C07_prefix_flatten` / `C07_return_stores` hold on a non-trivial instance:
declaration `{"a": n0, "b": [n1, n2]}`, returned `{"a": [7, 8], "b": [1, (2, 3)]}`. -/
example : WF (.dict [(.str "a", .leaf 0), (.str "b", .list [.leaf 1, .leaf 2])] : T Nat) = true ∧
    (leaves (.dict [(.str "a", .leaf 0), (.str "b", .list [.leaf 1, .leaf 2])] : T Nat)).Nodup ∧
    isPrefix false (struct (.dict [(.str "a", .leaf 0), (.str "b", .list [.leaf 1, .leaf 2])] : T Nat))
      (struct (.dict [(.str "a", .list [.leaf 7, .leaf 8]), (.str "b", .list [.leaf 1, .tuple [.leaf 2, .leaf 3]])] : T Nat)) = true ∧
    flattenUpTo (struct (.dict [(.str "a", .leaf 0), (.str "b", .list [.leaf 1, .leaf 2])] : T Nat))
      (.dict [(.str "a", .list [.leaf 7, .leaf 8]), (.str "b", .list [.leaf 1, .tuple [.leaf 2, .leaf 3]])] : T Nat) =
      some [.list [.leaf 7, .leaf 8], .leaf 1, .tuple [.leaf 2, .leaf 3]] :=
  ⟨rfl, by simp [leaves, leavesD, leavesL], rfl, rfl⟩

/-- and `C07_prefix_reject`'s hypothesis on misfits: too shallow, wrong container type, missing key, shorter list. -/
example : isPrefix false (struct (.dict [(.str "a", .leaf 0), (.str "b", .list [.leaf 1, .leaf 2])] : T Nat)) (struct (.leaf 5 : T Nat)) = false ∧
    isPrefix false (struct (.dict [(.str "a", .leaf 0), (.str "b", .list [.leaf 1, .leaf 2])] : T Nat))
      (struct (.dict [(.str "a", .leaf 0), (.str "b", .tuple [.leaf 1, .leaf 2])] : T Nat)) = false ∧
    isPrefix false (struct (.dict [(.str "a", .leaf 0), (.str "b", .list [.leaf 1, .leaf 2])] : T Nat))
      (struct (.dict [(.str "a", .leaf 0)] : T Nat)) = false ∧
    isPrefix false (struct (.dict [(.str "a", .leaf 0), (.str "b", .list [.leaf 1, .leaf 2])] : T Nat))
      (struct (.dict [(.str "a", .leaf 0), (.str "b", .list [.leaf 1])] : T Nat)) = false := ⟨rfl, rfl, rfl, rfl⟩

end PyTree
namespace TaskArgs
open PyTree

/-- `C07_dep_partial`'s hypothesis on a mixed declaration (a path, a value, a hashed PythonNode, a pickle node). -/
example : f70Class (.dict [(.str "a", .list [.leaf (.path 1), .leaf (.value 2)]),
    (.str "b", .tuple [.leaf (.pyNode 3 true), .leaf (.pickle 4)])] : T (Decl Nat Nat)) = false := rfl

/-- and F70's class is inhabited by the witness of `C07_dep_full_false`. -/
example : f70Class (.dict [(.str "a", .leaf (.pyNode 1 false)), (.str "b", .leaf (.value 2))] : T (Decl Nat Nat)) = true := rfl

end TaskArgs
end Pytask

namespace Pytask
namespace TaskArgs
open PyTree
variable {V P : Type}

/-- **kwargs_correct, per parameter.** In a collected task whose `depends_on[name]` is the collected
declaration `value` (and `name` is not a product), the function's parameter `name` receives
`value` with every leaf replaced by what its node loads to — same containers, same positions —
unless `value` lies in the class of finding F70. -/
theorem C07_param_dependency (params : List String) (dependsOn produces : Dict (T (Node V P)))
    (hn : (Dict.keys produces).Nodup) (name : String) (value : T (Decl V P))
    (hd : Dict.get dependsOn name = some (collectDep value)) (hnp : Dict.contains produces name = false)
    (h70 : f70Class value = false) :
    Dict.get (kwargsOf params dependsOn produces) name = some (map depObj value) := by
  rw [C07_kwargs_correct params dependsOn produces hn name, hnp, hd]
  simp [C07_dep_partial value h70]

/-- A product parameter of the function receives its declared tree with paths as paths and nodes
as node objects (`is_product=True`), whatever `depends_on` holds under that name. -/
theorem C07_param_product (params : List String) (dependsOn produces : Dict (T (Node V P)))
    (hn : (Dict.keys produces).Nodup) (name : String) (value : T (Decl V P)) (nodes : T (Node V P)) (isReturn : Bool)
    (hp : Dict.get produces name = some nodes) (hc : collectProd isReturn value = .ok nodes) (hparam : name ∈ params) :
    Dict.get (kwargsOf params dependsOn produces) name = some (map prodObj value) := by
  rw [C07_kwargs_correct params dependsOn produces hn name]
  simp [hparam, Dict.contains, hp, C07_prod_correct value nodes isReturn hc]

/-- Products the function has no parameter for — in particular `return` — are not passed. -/
theorem C07_param_absent (params : List String) (dependsOn produces : Dict (T (Node V P)))
    (hn : (Dict.keys produces).Nodup) (name : String) (hparam : name ∉ params) (hd : Dict.get dependsOn name = none) :
    Dict.get (kwargsOf params dependsOn produces) name = none := by
  rw [C07_kwargs_correct params dependsOn produces hn name]
  simp [hparam, hd]

end TaskArgs
end Pytask

namespace Pytask
namespace TaskArgs
open PyTree
variable {V P : Type}

/-- **Dependencies, parse level** (`parse_dependencies_from_task_function`). If no parameter is given a
value both by `@task(kwargs=…)`/default and by a node annotation, parsing succeeds and
`depends_on[name]` is the collected declaration found for `name` — `{**defaults, **task_kwargs}`
first (minus `produces`), the node annotation otherwise — for every name that is neither
`Product`-annotated nor `return`; other names are absent. -/
theorem C07_parseDeps (f : Func V P)
    (hok : f.nodeAnnot.any (fun kv => Dict.contains (Dict.erase f.merged "produces") kv.1) = false) :
    ∃ d, parseDeps f = .ok d ∧ ∀ name,
      Dict.get d name =
        if (f.productAnnot ++ ["return"]).contains name then none
        else ((Dict.get (Dict.erase f.merged "produces") name).or (Dict.get f.nodeAnnot name)).map collectDep := by
  refine ⟨_, by simp only [parseDeps, hok]; rfl, ?_⟩
  intro name
  rw [Dict.get_map_vals collectDep, Dict.get_filter_key (fun k => !(f.productAnnot ++ ["return"]).contains k),
    Dict.get_append]
  by_cases h1 : name ∈ f.productAnnot <;> by_cases h2 : name = "return" <;> simp [h1, h2]

/-- **Products, parse level, without `@task(produces=…)`** (`parse_products_from_task_function`).
When no name is defined twice and the return declaration holds no plain value, parsing succeeds
and `produces[name]` is the collected `productValue` of every visited product name (the
`Product`-annotated parameters, `produces`, `return`) and nothing else. -/
theorem C07_parseProds (pv : PyVals V) (f : Func V P) (hdeco : f.produces = none)
    (htwice : (f.productNames.filter (fun n => Dict.contains f.merged n || Dict.contains f.nodeAnnot n)).any
        (fun n => Dict.contains f.merged n && Dict.contains f.nodeAnnot n) = false)
    (hret : (f.productNames.filter (fun n => Dict.contains f.merged n || Dict.contains f.nodeAnnot n)).any
        (fun n => n == "return" && (leaves (f.productValue pv n)).any isPlainValue) = false) :
    ∃ d, parseProds pv f = .ok d ∧ ∀ name,
      Dict.get d name =
        if name ∈ f.productNames ∧ (Dict.contains f.merged name || Dict.contains f.nodeAnnot name) = true
        then some (map collectLeaf (f.productValue pv name)) else none := by
  refine ⟨_, by simp only [parseProds, htwice, hret, hdeco]; rfl, ?_⟩
  intro name
  rw [Dict.get_foldl_set (fun n => mapWithPath (fun _ d => collectLeaf d) (f.productValue pv n))]
  simp only [List.mem_filter, mapWithPath_const, Dict.get]

/-- Outside finding F72 (`productValue` falls back only for *falsy* declarations) the value collected
for a product name is the declared one: `{**defaults, **task_kwargs}[name]`. -/
theorem C07_productValue (pv : PyVals V) (f : Func V P) (name : String) (v : T (Decl V P))
    (h : Dict.get f.merged name = some v) (h72 : isFalsy pv v = false) : f.productValue pv name = v := by
  simp [Func.productValue, h, h72]

end TaskArgs
end Pytask

namespace Pytask
namespace TaskArgs
open PyTree
variable {V P : Type}

/-- **Products, parse level, with `@task(produces=…)`** — the code as it is (finding F71): the
products dict consists of the `return` entry alone, whatever product parameters were parsed before. -/
theorem C07_parseProds_decorator (pv : PyVals V) (f : Func V P) (tp : T (Decl V P)) (c : T (Node V P))
    (hdeco : f.produces = some tp) (ht : isFalsy pv tp = false) (hc : collectProd true tp = .ok c)
    (hr : Dict.contains f.nodeAnnot "return" = false)
    (htwice : (f.productNames.filter (fun n => Dict.contains f.merged n || Dict.contains f.nodeAnnot n)).any
        (fun n => Dict.contains f.merged n && Dict.contains f.nodeAnnot n) = false)
    (hret : (f.productNames.filter (fun n => Dict.contains f.merged n || Dict.contains f.nodeAnnot n)).any
        (fun n => n == "return" && (leaves (f.productValue pv n)).any isPlainValue) = false) :
    parseProds pv f = .ok [("return", c)] := by
  simp [parseProds, htwice, hret, hdeco, ht, hc, hr, Generated.taskProducesReplaces]

end TaskArgs
end Pytask
