-- TIE-PROPS: C01 C18 C19
-- TIE-SECTION: extract_sorter
import PytaskProofs.Lemmas.SorterGenRefines
/-!
# SorterTie — the hand-written scheduler model M2 equals the scheduler computed from the source

`Sorter.lean` (under the theorems of C01, C19 and, through `Provisional.lean`, C18) writes out `TopologicalSorter` by hand.
`harness/extract_sorter.py` reads the methods of the class from `dag_utils.py` into `Generated.Srt.*`, `SorterGen.lean`
interprets that data, and the theorems below say that the interpreters return what the hand-written definitions return,
for all arguments. A source change that alters an extracted fact (the ready set taken from another graph, processing nodes
removed on re-creation, reused priorities, another edge relation, a cached ready list, another slice or sort key …)
either is rejected by the translator or makes this module fail to compile.
-/
namespace Pytask
open Sorter SorterGen

/-- `from_dag`: `check_dag` first (a cycle anywhere in the graph is an error), the tasks are the nodes carrying a task, and
every task gets an edge from each of its task-**ancestors** (`nx.ancestors(dag, s) & task_signatures`, reversed). -/
theorem SorterTie_fromDag (full : G) (isTask : Nat → Bool) (prio : Nat → Int) :
    fromDagGen full isTask prio = Sorter.fromDag full isTask prio := fromDagGen_eq full isTask prio

/-- The ready set of `get_ready`: in-degree 0 in the sorter's own graph (`self.dag`), minus the tasks being processed. -/
theorem SorterTie_avail (s : Sorter) : availGen s = s.avail := availGen_eq s

/-- `sorted(ready, key=self.priorities.get(x, 0))[-n:]`: sort direction and slice as in the model (and as the older core
facts `readySortReversed` / `readySliceLast` say). -/
theorem SorterTie_readyWith (s : Sorter) (enum : List Nat) (n : Nat) : readyWithGen s enum n = s.readyWith enum n :=
  readyWithGen_eq s enum n

/-- The batch handed out is added to `_nodes_processing` and to nothing else. -/
theorem SorterTie_take (s : Sorter) (b : List Nat) : takeGen s b = s.take b := takeGen_eq s b

/-- `get_ready(n)` as a whole: `ValueError` exactly for `n < 1`; otherwise the model's slice and `take`. -/
theorem SorterTie_getReady (s : Sorter) (enum : List Nat) (n : Int) :
    getReadyGen s enum n =
      if n < 1 then .error .badN else .ok (s.readyWith enum n.toNat, s.take (s.readyWith enum n.toNat)) :=
  getReadyGen_eq s enum n

/-- `done(*xs)`: the nodes leave `_nodes_processing` and the graph (with their edges) and enter `_nodes_done`. -/
theorem SorterTie_finish (s : Sorter) (xs : List Nat) : finishGen s xs = s.finish xs := finishGen_eq s xs

/-- `is_active()` is "the graph still has nodes". -/
theorem SorterTie_isActive (s : Sorter) : isActiveGen s = s.isActive := isActiveGen_eq s

/-- `from_dag_and_sorter`: a fresh `from_dag(dag)` (fresh priorities), `done(*old._nodes_done)`, the processing set copied —
and nothing else (in particular the processing nodes stay in the graph). -/
theorem SorterTie_fromDagAndSorter (full : G) (isTask : Nat → Bool) (prio : Nat → Int) (old : Sorter) :
    fromDagAndSorterGen full isTask prio old = Sorter.fromDagAndSorter full isTask prio old :=
  fromDagAndSorterGen_eq full isTask prio old

/-- `_extract_priorities_from_tasks`: the key of `numeric_mapping` is (has try_first, has try_last), in this order, each
obtained with `has_mark` on the mark of the same name; the table is the one the model uses. -/
theorem SorterTie_prioOf (tf tl : Bool) :
    prioOfGen (fun m => if m == "try_first" then tf else if m == "try_last" then tl else false) = Sorter.prioOf tf tl :=
  prioOfGen_eq tf tl

/-- The default of `self.priorities.get(x, 0)` is the one the engine model uses for unknown vertices. -/
theorem SorterTie_prioFn (P : Project) (v : Nat) : prioFnGen P v = Engine.prioFn P v := prioFnGen_eq P v

/-! ### non-vacuity -/

def tieG : G := ⟨[0, 1, 2, 3, 4, 6], [(0, 1), (1, 2), (1, 4), (3, 4)]⟩   -- task 0 → node 1 → tasks 2, 4; node 3 → task 4

/-- The interpreted `from_dag` builds the task graph 0 → 2, 0 → 4 (+ isolated 6); the ready set is {0, 6}; with priorities
6 ↦ 1 the slice of size 1 is [6]; after handing it out and finishing 0 the ready set is {2, 4}. -/
example : ((fromDagGen tieG Engine.isTaskV (fun v => if v == 6 then 1 else 0)).toOption.map
    (fun s => (s.nodes, s.edges, availGen s, readyWithGen s (availGen s) 1,
      availGen (finishGen (takeGen s [6, 0]) [0])))) =
    some ([0, 2, 4, 6], [(0, 2), (0, 4)], [0, 6], [6], [2, 4]) := by decide

/-- A cycle is rejected; `get_ready(0)` raises. -/
example : (match fromDagGen ⟨[0, 1], [(0, 1), (1, 0)]⟩ Engine.isTaskV (fun _ => 0) with | .error .cycle => true | _ => false) = true ∧
    (match (fromDagGen tieG Engine.isTaskV (fun _ => 0)).toOption.map (fun s => getReadyGen s [0, 6] 0) with
      | some (.error .badN) => true | _ => false) = true := by decide

/-- Re-creation keeps a task that is being processed in the graph: it is not offered again, its dependants wait. -/
example : ((fromDagGen tieG Engine.isTaskV (fun _ => 0)).toOption.bind (fun s =>
    (fromDagAndSorterGen tieG Engine.isTaskV (fun _ => 0) (takeGen s [0])).toOption.map (fun s' => (s'.nodes, availGen s')))) =
    some ([0, 2, 4, 6], [6]) := by decide

end Pytask
