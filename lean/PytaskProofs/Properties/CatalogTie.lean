-- TIE-PROPS: C20
-- TIE-SECTION: extract_catalogsrc
import PytaskModel.CatalogGen
import PytaskProofs.Lemmas.Catalog
/-!
# CatalogTie — the hand-written catalog model M9b equals the catalog computed from the source

`Catalog.lean` (the model under the theorems of C20) writes out by hand what `DataCatalog._check`,
`__attrs_post_init__`, `__getitem__`, `add` and `PickleNode.load` / `save` do.
`harness/extract_catalogsrc.py` reads the same information from the tree under check into `Generated.Cat.*`
and `CatalogGen.lean` interprets that data. The theorems below say that, **for all arguments**, the
interpreters return what the hand-written definitions return. Their proofs unfold the generated terms, so a
change of pytask's source that alters an extracted fact — another `re` function or pattern (`^…$` with
`match`), another path component, another glob or dictionary key for the re-loaded nodes, a dropped
add-on-miss, a normalised / different string under the digest, other file suffixes, an open mode other than
`"rb"` / `"wb"` — makes this module fail to compile, and a statement outside the recognised fragment (a
cache in `load`, a skipped write in `save`, a re-written `node.path`) makes the translator section fail:
in both cases the properties proved over `Catalog.*` no longer speak about the code and the check reports
PROOF-BROKEN for C20.
-/
namespace Pytask
open Catalog CatalogGen
open Generated.Cat (InitStep PathPart EntryKey)

theorem matchLen_le (cls : List (Nat × Nat)) (s : Str) : matchLen cls s ≤ s.length := by
  unfold matchLen
  exact (List.takeWhile_sublist _).length_le

/-- `DataCatalog._check`: matching the extracted pattern with the extracted `re` function (a regex matcher
with Python's `^` / `$` semantics) accepts exactly what the model's `validName` accepts, for every string. -/
theorem CatalogTie_validator (s : Str) : validNameGen s = validName s := by
  have hv : validName s = reFullmatch Generated.catalogNameClass s := rfl
  have hg : validNameGen s =
      ((List.range (matchLen Generated.catalogNameClass s)).map (0 + 1 + ·)).contains s.length := by
    simp [validNameGen, Generated.Cat.validatorFn, Generated.Cat.validatorPattern, endsAll, endsOf, Generated.catalogNameClass]
  rw [hv, hg]
  have hle := matchLen_le Generated.catalogNameClass s
  unfold reFullmatch
  generalize matchLen Generated.catalogNameClass s = r at *
  rw [Bool.eq_iff_iff]
  simp only [List.contains_iff_mem, List.mem_map, List.mem_range, Bool.and_eq_true, decide_eq_true_eq, beq_iff_eq]
  constructor
  · rintro ⟨a, ha, h⟩; omega
  · rintro ⟨h1, h2⟩; exact ⟨r - 1, by omega, by omega⟩

/-- …and that is the documented rule: non-empty, only letters, digits, hyphens, underscores. -/
theorem CatalogTie_validator_documented (s : Str) : validNameGen s = true ↔ FullyValid s := by
  rw [CatalogTie_validator]
  exact validNameK_full_iff s

/-- The default directory assigned in `__attrs_post_init__` (`root / ".pytask" / "data_catalogs" / self.name`,
normalised) is the model's `catalogDir`, for every root and every name. -/
theorem CatalogTie_dir (root : Path) (name : Str) :
    ∃ parts, InitStep.defaultPath parts ∈ Generated.Cat.init ∧ dirGen root name parts = catalogDir root name := by
  refine ⟨_, by simp [Generated.Cat.init]; rfl, ?_⟩
  simp [dirGen, partComps, catalogDir, normComps, splitSlash, normStep, Generated.catalogDirParts]

theorem isFileInWithSuffix_eq (dir p : Path) :
    isFileInWithSuffix Generated.catalogNodeSuffix dir p = isNodeFileIn dir p := rfl

theorem mapM_some_pair (l : List (Path × Node)) :
    (l.mapM fun x => (some (x.2.name, x.2) : Option (Str × Node))) = some (l.map fun x => (x.2.name, x.2)) := by
  induction l with
  | nil => rfl
  | cons x xs ih => simp [List.mapM_cons, ih]

/-- `DataCatalog(name=…)` — validator, root resolution, default directory, `mkdir`, re-loading every
`*-node.pkl` of the directory under `node.name` — interpreted from the extracted statements, is the model's
`openCatalog`, for every project root, file system and name. -/
theorem CatalogTie_open (root : Path) (fs : FS) (name : Str) :
    openCatalogGen root fs name = some (openCatalog root fs name) := by
  unfold openCatalogGen openCatalog
  rw [CatalogTie_validator]
  by_cases hv : validName name = true
  · simp only [hv, if_true]
    have hd : dirGen root name [.lit ['.', 'p', 'y', 't', 'a', 's', 'k'],
        .lit ['d', 'a', 't', 'a', '_', 'c', 'a', 't', 'a', 'l', 'o', 'g', 's'], .selfName] = catalogDir root name := by
      simp [dirGen, partComps, catalogDir, normComps, splitSlash, normStep, Generated.catalogDirParts]
    have hsuf : (['-', 'n', 'o', 'd', 'e', '.', 'p', 'k', 'l'] : List Char) = Generated.catalogNodeSuffix := rfl
    simp only [Generated.Cat.init, initRun, initStep, Option.bind, Option.map, Option.isSome, if_true, hd, hsuf,
      isFileInWithSuffix_eq, keyOf, mapM_some_pair]
    simp [globNodes, List.map_map, Function.comp_def]
  · simp [hv]

/-- `DataCatalog.add(e)` without a node — name type check, `node is None` branch: digest of the raw entry
name, default node `PickleNode(name=e, path=self.path / f"{digest}.pkl")` stored under `e`, the node pickled
to `self.path / f"{digest}-node.pkl"` — is the model's `addEntry`, for all arguments. -/
theorem CatalogTie_add (sha : Str → Str) (fs : FS) (c : CatObj) (e : Str) :
    addGen sha fs c e = some ((addEntry sha fs c e).1, (addEntry sha fs c e).2.1) := by
  simp [addGen, Generated.Cat.add, addDefaultGen, Generated.Cat.defaultNode, nameOf, fileOf, addEntry, entryPathIn, entryFile, nodeFile,
    Generated.catalogEntrySuffix, Generated.catalogNodeSuffix]

/-- `catalog[e]` — add on a miss, then return `self._entries[e]` — is the model's `getItem`. -/
theorem CatalogTie_getItem (sha : Str → Str) (fs : FS) (c : CatObj) (e : Str) :
    getItemGen sha fs c e = some (getItem sha fs c e) := by
  unfold getItemGen Catalog.getItem
  simp only [Generated.Cat.getItem, getRun]
  cases hl : c.entries.lookup e with
  | some n => simp [getRun, hl]
  | none =>
    simp only [CatalogTie_add, Option.bind, getRun]
    simp [addEntry, List.lookup]

/-- `PickleNode.save` is a plain replacement of the file (`open("wb")` + `pickle.dump`, nothing else). -/
theorem CatalogTie_save (vals : Path → Option Nat) (p : Path) (v : Nat) :
    saveGen vals p v = some (writeVal vals p v) := by
  simp [saveGen, Generated.Cat.pickleSave]

/-- `PickleNode.load` returns what the file holds now (`open("rb")` + `pickle.load`, nothing else). -/
theorem CatalogTie_load (vals : Path → Option Nat) (p : Path) : loadGen vals p = some (vals p) := by
  simp [loadGen, Generated.Cat.pickleLoad]

theorem withCatGen_eq (sha : Str → Str) (st : St) (name e : Str) :
    withCatGen sha st name e = some (withCat sha st name e) := by
  unfold withCatGen withCat
  cases hl : st.cats.lookup name with
  | some c => simp [CatalogTie_getItem]
  | none =>
    simp only [CatalogTie_open]
    cases openCatalog st.root st.fs name with
    | none => rfl
    | some c => simp [CatalogTie_getItem]

/-- **One operation.** `catalog[e].save(v)`, `catalog[e].load()` and a session restart, computed from the
extracted code, are the model's `step` — for every state, every operation, every digest function. All
theorems of C20 are statements about `step` / `run` / `entryPath`. -/
theorem CatalogTie_step (sha : Str → Str) (st : St) (op : Op) : stepGen sha st op = some (step sha st op) := by
  cases op with
  | newSession => rfl
  | save cat e v =>
    simp only [stepGen, step, withCatGen_eq]
    cases withCat sha st cat e with
    | none => rfl
    | some r => simp [CatalogTie_save]
  | load cat e =>
    simp only [stepGen, step, withCatGen_eq]
    cases withCat sha st cat e with
    | none => rfl
    | some r => simp [CatalogTie_load]

/-- **Location.** A freshly opened catalog hands out entry `e` at the model's `entryPath`, computed from the
extracted path parts, digest source and suffix. -/
theorem CatalogTie_entryPath (sha : Str → Str) (root : Path) (fs : FS) (name e : Str) (c : CatObj)
    (hc : openCatalogGen root fs name = some (some c)) (hmiss : c.entries.lookup e = none) :
    ∃ r, getItemGen sha fs c e = some r ∧ r.2.2.path = entryPath sha root name e := by
  rw [CatalogTie_open] at hc
  refine ⟨_, CatalogTie_getItem sha fs c e, ?_⟩
  have hdir : c.dir = catalogDir root name := by
    unfold openCatalog at hc
    by_cases hv : validName name = true
    · simp only [hv, if_true, Option.some.injEq] at hc
      rw [← hc]
    · simp [hv] at hc
  simp [Catalog.getItem, hmiss, addEntry, entryPath, hdir]

/-- `PickleNode.state()` and `.signature` are functions of the node's path only (no cached value, no
name): two entries are the same DAG node / have the same state exactly according to their locations. -/
theorem CatalogTie_state {α : Type} (fileState : Path → α) (n : Node) : stateGen fileState n = some (fileState n.path) := rfl

theorem CatalogTie_signature {α : Type} (hashPath : Path → α) (n : Node) :
    signatureGen hashPath n = some (hashPath n.path) := rfl

/-- `PickleNode.from_path(p)` keeps the path it is given. -/
theorem CatalogTie_fromPath (render : Path → Str) (p : Path) :
    (fromPathGen render p).map (·.path) = some p := rfl

/-! Non-vacuity: the interpreters on concrete data. -/

example : validNameGen ['a', '-', '1'] = true ∧ validNameGen ['a', '\n'] = false ∧ validNameGen ['a', '/', 'b'] = false := by
  decide

example : (stepGen id (St.init [['p']]) (.save ['c'] ['x'] 3)).map (·.2) = some .done := by
  rw [CatalogTie_step]; decide

end Pytask
