-- TIE-PROPS: C13
-- TIE-SECTION: extract_provgen
import PytaskProofs.Properties.C13
/-!
# CollectGenTie — C13's statement about generated tasks, tied to the generator branch read from the source

`Collect.generatorCollect` is parameterised by two facts that `harness/extract_provgen.py` (b-c18's translator section)
reads from `provisional.pytask_execute_task`: the generator raises on a failed child report (`.raiseOnCollectFail`,
fix f1fcb9a / F35) and on a child whose signature is already taken (`.raiseOnDuplicate`, fix 6571c4f / F39). This module
is a *tie module* for that section: if the section cannot be extracted from the tree under check, or either step is
missing, the check reports PROOF-BROKEN for C13.
-/
namespace Pytask
open Collect

/-- the source under check raises on a failed child report (false for the code before f1fcb9a) and on a child whose
signature is already taken (false for the code before 6571c4f). -/
theorem genRaises_fact : genRaisesOnFailedChild = true ∧ genRaisesOnDuplicate = true := by decide

/-- **C13_generated_total** (true since fixes f1fcb9a, F35, and 6571c4f, F39). Whatever children a task generator
defines while it runs, and whatever tasks the session already holds: either the generator fails (so the build does not
end with exit code 0), or every child — none of them uncollectable — is collected, in order, exactly once, under
ids that are pairwise distinct and differ from every id already in the session. No generated task is silently
dropped, none is merged with an existing task. -/
theorem C13_generated_total (path : Path) (gen : Nat) (cs : List Child) (existing : List TKey) :
    generatorCollect genRaisesOnFailedChild genRaisesOnDuplicate existing (childReports path gen 0 cs) = none ∨
    (generatorCollect genRaisesOnFailedChild genRaisesOnDuplicate existing (childReports path gen 0 cs) = some (childReports path gen 0 cs) ∧
      (childReports path gen 0 cs).length = cs.length ∧ (∀ c ∈ cs, c.uncollectable = false) ∧
      ((childReports path gen 0 cs).filterMap Report.key).Nodup ∧
      ∀ k ∈ (childReports path gen 0 cs).filterMap Report.key, k ∉ existing) := by
  unfold generatorCollect
  rw [genRaises_fact.1, genRaises_fact.2]
  cases h : (childReports path gen 0 cs).any Report.isFail with
  | true => left; simp
  | false =>
    cases hc : clashesExisting existing (childReports path gen 0 cs) with
    | true => left; simp
    | false =>
      right
      obtain ⟨h1, h2, h3⟩ := childReports_clean path gen cs 0 h
      obtain ⟨h4, h5⟩ := clashesExisting_false _ existing hc
      exact ⟨by simp [h1], h2, h3, h4, h5⟩

end Pytask
