import PytaskProofs.Lemmas.EngineFail
import PytaskProofs.Lemmas.EngineRerun
/-!
# C04 — failures are contained: dependants skipped, others run, nothing recorded

All theorems are about `Engine.build` / `Engine.buildLoop` (M6) for **every** project, configuration
(force, dry-run, `-k`/`-m` selection, failure limit), world and every pick list the scheduler model
accepts. `g` is the graph `create_dag` built (product chains and the `after` edges of `_modify_dag`);
`taskDesc g f` is what `descending_tasks(f)` returns, and `taskDesc_iff_taskAnc` says these are
exactly the tasks that have `f` among their task-ancestors.
-/
namespace Pytask
open Sorter Engine

variable {F : BodyFn} {P : Project} {cfg : Cfg} {g : G} {marks : List Nat}

/-- **C04_contain.** If task `f` is reported FAIL (its function or a node raised, a dependency was
missing or a product was not created), the body of no task depending on `f` directly or
transitively is invoked in that build — whatever the options and the order in which ready tasks
were taken. -/
theorem C04_contain {w : World} {picks : List Nat} {r : Result}
    (hdag : createDag P cfg = .ok (g, marks)) (hb : build F P cfg w picks = .ok r)
    {f d : Nat} (hf : (f, Outcome.fail) ∈ r.reports) (hd : d ∈ taskDesc g f) : d ∉ r.log := by
  rcases build_run hdag hb with ⟨so, so', s', hso, hrun, hr, hl, _, _, _⟩ | ⟨hr, hl, _, _⟩
  · rw [hl]; rw [hr] at hf
    exact contain_core hso hrun rfl rfl hf hd
  · rw [hl]; simp

/-- The marked descendants are exactly the tasks that depend on the failed task. -/
theorem C04_contain_dependants {f d : Nat} : d ∈ taskDesc g f ↔ f ∈ taskAnc g d := taskDesc_iff_taskAnc

/-- **C04_others** ("on its own merits"). Let `t` be picked after `pre`, in session `s1`. If no
task-ancestor of `t` is reported FAIL, then what the protocol does for `t` (what it raises, which
files it writes, whether the body is logged) is exactly what it does in the same world with **all**
`skip_ancestor_failed` marks erased; consequently the outcome reported for `t` at the end of the
build is that "own merits" outcome, and `t`'s body is logged iff it is logged there. -/
theorem C04_others {w : World} {picks pre post : List Nat} {t : Nat} {so so1 so' : Sorter} {s1 s' : Sess} {spec : TaskSpec}
    (_hdag : createDag P cfg = .ok (g, marks)) (hso : fromDag g isTaskV (prioFn P) = .ok so)
    (hloop : buildLoop F P g cfg so { w := w, skipMarks := marks } picks = .ok (so', s'))
    (hp : picks = pre ++ t :: post)
    (hpre : buildLoop F P g cfg so { w := w, skipMarks := marks } pre = .ok (so1, s1))
    (hfind : Project.find? P t = some spec)
    (hanc : ∀ a ∈ taskAnc g t, (a, Outcome.fail) ∉ s'.reports) :
    let alone := runPhases F P g cfg { s1 with failMarks := [] } spec
    runPhases F P g cfg s1 spec = (alone.1, { alone.2 with failMarks := s1.failMarks }) ∧
    (∀ o, (t, o) ∈ s'.reports → o = outc alone.1) ∧
    (t ∈ s'.log ↔ alone.2.log = s1.log ++ [t]) := by
  intro alone
  have hrun := run_of_buildLoop _ _ _ _ _ hloop
  subst hp
  obtain ⟨hn, _⟩ := run_order hso hrun
  obtain ⟨so1', s1', spec', hpa⟩ := pickAt_of_split hrun
  obtain ⟨rfl, rfl⟩ := Run.det hpa.hpre (run_of_buildLoop _ _ _ _ _ hpre)
  have : spec' = spec := by
    have := hpa.hfind.symm.trans hfind
    simpa using this
  subst this
  -- `t` carries no fail mark when its protocol starts
  have hnm : t ∉ s1'.failMarks := by
    intro hm
    obtain ⟨f, hfa, hfr⟩ := failMark_sound hpa.hpre rfl hm
    have hpre' : s1'.reports <+: s'.reports :=
      List.IsPrefix.trans (protocol_reports_prefix _ _) hpa.hpost.reports_prefix
    exact hanc f hfa (hpre'.subset hfr)
  have hc : s1'.failMarks.contains spec'.id = ([] : List Nat).contains spec'.id := by
    rw [hpa.id_eq]; simpa using hnm
  have hirr := runPhases_failMarks_irrel (F := F) (P := P) (g := g) (cfg := cfg) s1' spec' [] hc
  have hfm := (runPhases_frame (F := F) (P := P) (g := g) (cfg := cfg) s1' spec').2.2.1
  have h1 : runPhases F P g cfg s1' spec' = (alone.1, { alone.2 with failMarks := s1'.failMarks }) := by
    have halone : alone = _ := hirr
    rw [halone, ← hfm]
  refine ⟨h1, ?_, ?_⟩
  · intro o ho
    rcases report_origin hrun t o ho with h0 | ⟨pre2, post2, so2, s2, spec2, hpa2, ho2⟩
    · cases h0
    obtain ⟨_, _, _, rfl, rfl⟩ := hpa.unique hn hpa2
    rw [← ho2, h1]
  · have hlogeq : alone.2.log = (runPhases F P g cfg s1' spec').2.log := by rw [h1]
    rw [hlogeq]
    constructor
    · intro hl
      rcases log_origin hrun t hl with h0 | ⟨pre2, post2, so2, s2, spec2, hpa2, hl2⟩
      · cases h0
      obtain ⟨_, _, _, rfl, rfl⟩ := hpa.unique hn hpa2
      exact hl2
    · intro hl
      have h2 : (protocol F P g cfg s1' spec').log <+: s'.log := hpa.hpost.log_prefix
      apply h2.subset
      rw [protocol_log_eq, hl]; simp

/-- **C04_norecord.** A failing run records nothing: the database rows of a task reported FAIL (more
generally: any outcome other than SUCCESS / PERSISTENCE) are after the build what they were before. -/
theorem C04_norecord {w : World} {picks : List Nat} {r : Result}
    (hdag : createDag P cfg = .ok (g, marks)) (hb : build F P cfg w picks = .ok r)
    {t : Nat} {o : Outcome} (ht : (t, o) ∈ r.reports) (h1 : o ≠ .success) (h2 : o ≠ .persistence) (n : Nat) :
    lookup r.w.db (tv t, n) = lookup w.db (tv t, n) := by
  rcases build_run hdag hb with ⟨so, so', s', hso, hrun, hr, _, hw, _, _⟩ | ⟨hr, _, hw, _⟩
  · rw [hw]; rw [hr] at ht
    exact norecord_core (run_order hso hrun).1 hrun rfl ht h1 h2 n
  · rw [hw]

/-- **C04_rerun_unrecorded.** Special case that needs no stability premise and allows a changed project: if `t` is reported FAIL
and (before the failing build) some neighbour of `t` had no recorded state — `t` never succeeded with
that dependency / product set — then in any following build (any options, any schedule, failures
switched off or on: `F₂ P₂` arbitrary) over the resulting world, `t` is **not** reported
`SKIP_UNCHANGED`. -/
theorem C04_rerun_unrecorded {w : World} {picks : List Nat} {r : Result}
    (hdag : createDag P cfg = .ok (g, marks)) (hb : build F P cfg w picks = .ok r)
    {t : Nat} (ht : (t, Outcome.fail) ∈ r.reports)
    {F₂ : BodyFn} {P₂ : Project} {cfg₂ : Cfg} {g₂ : G} {marks₂ : List Nat} {picks₂ : List Nat} {r₂ : Result}
    (hdag₂ : createDag P₂ cfg₂ = .ok (g₂, marks₂)) (hb₂ : build F₂ P₂ cfg₂ r.w picks₂ = .ok r₂)
    {v : Nat} (hv : v ∈ neighbours g₂ t) (hneeded : lookup w.db (tv t, v) = none) :
    (t, Outcome.skipUnchanged) ∉ r₂.reports := by
  intro hsu
  have hrow : lookup r.w.db (tv t, v) = none := by
    rw [C04_norecord hdag hb ht (by simp) (by simp) v]; exact hneeded
  rcases build_run hdag₂ hb₂ with ⟨so, so', s', hso, hrun, hr, _, _, _, _⟩ | ⟨hr, _, _, _⟩
  · rw [hr] at hsu
    obtain ⟨hn, _⟩ := run_order hso hrun
    rcases report_origin hrun t _ hsu with h0 | ⟨pre, post, so1, s1, spec, hpa, ho⟩
    · cases h0
    have hsk : (runPhases F₂ P₂ g₂ cfg₂ s1 spec).1 = .skippedUnchanged := outc_inj (b := .skippedUnchanged) ho
    have hsc : setupChain P₂ g₂ cfg₂ s1 spec Generated.setupOrder = .skippedUnchanged := by
      unfold runPhases at hsk
      split at hsk
      · split at hsk
        · simp at hsk
        · simp only [] at hsk
          split at hsk <;> (try split at hsk) <;> simp at hsk
      · simpa using hsk
    have hscan := setupChain_unchanged s1 spec hsc
    rw [hpa.id_eq] at hscan
    have hrows := (scan_unchanged_rows s1.w t _ _ hscan).2 v hv
    have hnd : (pre ++ t :: post).Nodup := by rw [← hpa.hp]; exact hn
    have hnpre : t ∉ pre := fun hm => (List.nodup_append.1 hnd).2.2 t hm t (by simp) rfl
    rw [hpa.hpre.db_other t hnpre v] at hrows
    exact hrows hrow
  · rw [hr] at hsu; cases hsu

/-- **C04_needed_of_fail.** Without `force`, a task reported FAIL *needed to run*: in the session in
which its protocol started, some neighbour (dependency, `after`-linked product, its own module, a
product) had no state, no recorded row, or a state different from the recorded row. -/
theorem C04_needed_of_fail {w : World} {picks pre post : List Nat} {t : Nat} {so so1 so' : Sorter} {s1 s' : Sess}
    (hloop : buildLoop F P g cfg so { w := w, skipMarks := marks } picks = .ok (so', s'))
    (hp : picks = pre ++ t :: post)
    (hpre : buildLoop F P g cfg so { w := w, skipMarks := marks } pre = .ok (so1, s1))
    (hso : fromDag g isTaskV (prioFn P) = .ok so)
    (ht : (t, Outcome.fail) ∈ s'.reports) (hforce : cfg.force = false) :
    ∃ v ∈ neighbours g t, hasChanged s1.w t v (stateOf P s1.w v) = true := by
  have hrun := run_of_buildLoop _ _ _ _ _ hloop
  subst hp
  obtain ⟨hn, _⟩ := run_order hso hrun
  obtain ⟨so1', s1', spec, hpa⟩ := pickAt_of_split hrun
  obtain ⟨rfl, rfl⟩ := Run.det hpa.hpre (run_of_buildLoop _ _ _ _ _ hpre)
  rcases report_origin hrun t _ ht with h0 | ⟨pre2, post2, so2, s2, spec2, hpa2, ho⟩
  · cases h0
  obtain ⟨_, _, _, rfl, rfl⟩ := hpa.unique hn hpa2
  have he : (runPhases F P g cfg s1' spec).1 = .error := outc_inj (b := .error) ho
  have hfc := (runPhases_error_iff_failCond s1' spec).1 he
  rw [← hpa.id_eq]
  rcases hfc.2 with hm | ⟨hsc, _, _⟩
  · obtain ⟨v, hv, hst⟩ := hm
    refine ⟨v, ?_, by rw [hst]; rfl⟩
    unfold neighbours
    simp only [List.mem_append] at hv ⊢
    exact Or.inl hv
  · rw [hforce] at hsc
    exact scan_changed_witness s1'.w spec.id _ hsc

/-- **C04_rerun.** "A task that needed to run and failed still needs to run in the next build even if
nothing changed in between." Build 1 (any options, any schedule) reports `t` FAIL, and `t` needed to run:
at its setup some neighbour `v` had no state, no recorded row or a state different from the row
(`C04_needed_of_fail`: automatic unless the run was merely forced). Build 2 starts from the resulting
world with no edits — same project, any options, any schedule. Then `t` is **not** reported
SKIP_UNCHANGED in build 2, provided the file behind `v` was not rewritten in between by a task whose body
ran (from `t`'s protocol to the end of build 1, or in build 2) and that declares it as a product.

That proviso is the honest exception: the rows of `t` are untouched (`C04_norecord`), and a file only
changes when a task that declares it as product runs — `t` itself for its products (a body that writes
its products and then raises may restore exactly the recorded content, see the example below), or, for a
dependency, its producer (an ancestor of `t`) re-running in build 2 and producing the recorded value
again. For an unrecorded neighbour no proviso is needed (`C04_rerun_unrecorded`). -/
theorem C04_rerun {w : World} {picks pre post : List Nat} {t v : Nat} {so so1 so' : Sorter} {s1 s' : Sess}
    (hdag : createDag P cfg = .ok (g, marks)) (hso : fromDag g isTaskV (prioFn P) = .ok so)
    (hloop : buildLoop F P g cfg so { w := w, skipMarks := marks } picks = .ok (so', s'))
    (hp : picks = pre ++ t :: post)
    (hpre : buildLoop F P g cfg so { w := w, skipMarks := marks } pre = .ok (so1, s1))
    (ht : (t, Outcome.fail) ∈ s'.reports)
    (hv : v ∈ neighbours g t) (hneed : hasChanged s1.w t v (stateOf P s1.w v) = true)
    {cfg₂ : Cfg} {g₂ : G} {marks₂ : List Nat} {picks₂ : List Nat} {r₂ : Result}
    (hdag₂ : createDag P cfg₂ = .ok (g₂, marks₂)) (hb₂ : build F P cfg₂ s'.w picks₂ = .ok r₂)
    (hstable : ∀ n, fileOf P v = some n → ∀ x spec', Project.find? P x = some spec' →
      (((x = t ∨ x ∈ post) ∧ x ∈ s'.log) ∨ x ∈ r₂.log) → n ∉ spec'.prods) :
    (t, Outcome.skipUnchanged) ∉ r₂.reports := by
  intro hsu
  have hg : g₂ = g := by rw [(createDag_ok hdag₂).1, (createDag_ok hdag).1]
  subst hg
  have hrun := run_of_buildLoop _ _ _ _ _ hloop
  subst hp
  obtain ⟨hn, _⟩ := run_order hso hrun
  obtain ⟨so1', s1', spec, hpa⟩ := pickAt_of_split hrun
  obtain ⟨rfl, rfl⟩ := Run.det hpa.hpre (run_of_buildLoop _ _ _ _ _ hpre)
  rcases report_origin hrun t _ ht with h0 | ⟨pre', post', so2, s2, spec2, hpa', ho⟩
  · cases h0
  obtain ⟨_, _, _, rfl, rfl⟩ := hpa.unique hn hpa'
  have he : (runPhases F P g₂ cfg s1' spec).1 = .error := outc_inj (b := .error) ho
  have hnd : (pre ++ t :: post).Nodup := hn
  have hnpost : t ∉ post := (List.nodup_cons.1 (List.nodup_append.1 hnd).2.1).1
  -- build 2
  have hnofd : ¬ (r₂.reports = []) := fun h => by rw [h] at hsu; cases hsu
  rcases build_run hdag₂ hb₂ with hbr | ⟨hrb, _, _, _⟩
  case inr => exact absurd hrb hnofd
  obtain ⟨sob, sob', sb', hsob, hrunb, hrb, hlb, _, _, _⟩ := hbr
  rw [hrb] at hsu
  obtain ⟨hnb, _⟩ := run_order hsob hrunb
  rcases report_origin hrunb t _ hsu with h0 | ⟨preb, postb, sob1, sb1, specb, hpab, hob⟩
  · cases h0
  have hspec : spec = specb := by simpa using hpa.hfind.symm.trans hpab.hfind
  subst hspec
  have hndb : (preb ++ t :: postb).Nodup := by rw [← hpab.hp]; exact hnb
  have hnpreb : t ∉ preb := fun hm => (List.nodup_append.1 hndb).2.2 t hm t (by simp) rfl
  -- `t` is reported unchanged in build 2: every neighbour matches its row at `t`'s setup there
  have hsk : (runPhases F P g₂ cfg₂ sb1 spec).1 = .skippedUnchanged := outc_inj (b := .skippedUnchanged) hob
  have hsc : setupChain P g₂ cfg₂ sb1 spec Generated.setupOrder = .skippedUnchanged := by
    unfold runPhases at hsk
    split at hsk
    · split at hsk
      · simp at hsk
      · simp only [] at hsk
        split at hsk <;> (try split at hsk) <;> simp at hsk
    · simpa using hsk
  have hscan := setupChain_unchanged sb1 spec hsc
  rw [hpab.id_eq] at hscan
  have hnochange := (scan_unchanged_nochange sb1.w t _ _ hscan).2 v hv
  -- rows of `t` did not move …
  have hrow : lookup sb1.w.db (tv t, v) = lookup s1'.w.db (tv t, v) := by
    rw [hpab.hpre.db_other t hnpreb v]
    show lookup s'.w.db (tv t, v) = _
    rw [hpa.hpost.db_other t hnpost v, protocol_db_norecord _ _ (by rw [he]; simp) (by rw [he]; simp)]
  -- … and neither did the file behind `v`
  have hst : stateOf P sb1.w v = stateOf P s1'.w v := by
    apply stateOf_congr_file
    intro n hn'
    have hlogb : sb1.log <+: sb'.log :=
      List.IsPrefix.trans (by
        rcases protocol_log F P g₂ cfg₂ sb1 spec with h | h <;> rw [h]
        · exact List.prefix_refl _
        · exact List.prefix_append _ _) hpab.hpost.log_prefix
    rw [hpab.hpre.fs_frame n (fun x _ sp hf hl => hstable n hn' x sp hf (Or.inr (by rw [hlb]; exact hlogb.subset hl)))]
    show lookup s'.w.fs n = _
    rw [hpa.hpost.fs_frame n (fun x hx sp hf hl => hstable n hn' x sp hf (Or.inl ⟨Or.inr hx, hl⟩))]
    apply Classical.byContradiction
    intro hne
    obtain ⟨hprod, hlog⟩ := protocol_fs_change s1' spec n hne
    have : t ∈ s'.log := by
      apply hpa.hpost.log_prefix.subset
      rw [hlog, hpa.id_eq]; simp
    exact hstable n hn' t spec hpa.hfind (Or.inl ⟨Or.inl rfl, this⟩) hprod
  rw [hasChanged_congr hrow hst, hneed] at hnochange
  cases hnochange

/-- **C04_limit.** With a failure limit `n ≥ 1` (`max_failures=n`; `stop_after_first_failure` is
`n = 1`): at most `n` tasks are reported FAIL, and whenever the protocol of a task starts, fewer
than `n` failures have been reported — nothing is started after the `n`-th failure. -/
theorem C04_limit {w : World} {picks : List Nat} {so so' : Sorter} {s' : Sess} {n : Nat}
    (hloop : buildLoop F P g cfg so { w := w, skipMarks := marks } picks = .ok (so', s'))
    (hmax : cfg.maxFail = some n) (hn : 1 ≤ n) :
    failCount s'.reports ≤ n ∧
    ∀ pre t post so1 s1, picks = pre ++ t :: post →
      buildLoop F P g cfg so { w := w, skipMarks := marks } pre = .ok (so1, s1) → failCount s1.reports < n := by
  have hrun := run_of_buildLoop _ _ _ _ _ hloop
  have hi0 : LimitInv cfg ({ w := w, skipMarks := marks } : Sess) := ⟨rfl, fun _ _ _ => Or.inr rfl⟩
  have key : ∀ pre t post so1 s1, picks = pre ++ t :: post →
      buildLoop F P g cfg so { w := w, skipMarks := marks } pre = .ok (so1, s1) → failCount s1.reports < n := by
    intro pre t post so1 s1 hp hpre
    subst hp
    obtain ⟨so1', s1', spec, hpa⟩ := pickAt_of_split hrun
    obtain ⟨rfl, rfl⟩ := Run.det hpa.hpre (run_of_buildLoop _ _ _ _ _ hpre)
    have hi := hpa.hpre.limitInv hi0
    rw [← hi.count]
    rcases hi.below n hmax hpa.hstop with h | h <;> omega
  refine ⟨?_, key⟩
  -- the last protocol adds at most one failure
  rcases List.eq_nil_or_concat picks with rfl | ⟨pre, t, rfl⟩
  · cases hrun; simp [failCount]
  · rw [List.concat_eq_append] at hrun key
    obtain ⟨so1, s1, spec, hpa⟩ := pickAt_of_split hrun
    have hlt := key pre t [] so1 s1 rfl (buildLoop_of_run hpa.hpre)
    have hpost := hpa.hpost
    cases hpost
    rcases protocol_reports (F := F) (P := P) (g := g) (cfg := cfg) s1 spec with hr | hr
    · rw [hr, failCount_append]
      have : failCount [(spec.id, outc (runPhases F P g cfg s1 spec).1)] ≤ 1 := by
        unfold failCount; exact List.length_filter_le _ _
      omega
    · rw [hr.2.1]; omega

/-- **C04_exit.** A build in which some task is reported FAIL ends with exit code 1 (`ExitCode.FAILED`,
through `ExecutionError` in `Generated.buildLadder`). -/
theorem C04_exit {w : World} {picks : List Nat} {r : Result}
    (hdag : createDag P cfg = .ok (g, marks)) (hb : build F P cfg w picks = .ok r)
    {t : Nat} (ht : (t, Outcome.fail) ∈ r.reports) : r.exit = 1 := by
  rcases build_run hdag hb with ⟨so, so', s', hso, hrun, hr, _, _, _, he⟩ | ⟨hr, _, _, _⟩
  · rw [he]
    have hany : s'.reports.any (fun r => r.2 == Outcome.fail) = true := by
      rw [hr] at ht
      exact List.any_eq_true.2 ⟨_, ht, by simp⟩
    rw [hany]
    have h1 : ladderCode "Exception" = 1 := by decide
    have h2 : ladderCode "ExecutionError" = 1 := by decide
    split <;> simp [h1, h2]
  · rw [hr] at ht; cases ht

/-! ## Non-vacuity: a diamond with a failing root branch, a sibling branch and a failure limit -/

/-- `0` (raises) → `1` → `3`, `2` independent of `0`, `3` also depends on `2`. -/
def c04P : Project := ⟨[
  { id := 0, src := 90, deps := [10], prods := [20], after := [], beh := .raisesLate },
  { id := 1, src := 90, deps := [20], prods := [21], after := [] },
  { id := 2, src := 90, deps := [10], prods := [22], after := [] },
  { id := 3, src := 90, deps := [21, 22], prods := [23], after := [] }]⟩
def c04W : World := ⟨[(10, 5), (90, 7)], []⟩
def c04F : BodyFn := fun t i _ _ => t * 10 + i

/-- Hypotheses of C04_contain / C04_others / C04_norecord / C04_exit are satisfiable: task 0 fails,
its dependants 1 and 3 are skipped, the sibling 2 runs, exit code 1. -/
example : ∃ r g marks, createDag c04P {} = .ok (g, marks) ∧ build c04F c04P {} c04W [0, 2, 1, 3] = .ok r ∧
    (0, Outcome.fail) ∈ r.reports ∧ 3 ∈ taskDesc g 0 ∧ 1 ∈ taskDesc g 0 ∧ 2 ∉ taskDesc g 0 ∧
    r.log = [0, 2] ∧ (2, Outcome.success) ∈ r.reports ∧ (3, Outcome.skipPrevFailed) ∈ r.reports ∧ r.exit = 1 := by
  refine ⟨_, _, _, rfl, rfl, ?_⟩
  decide

/-- Hypotheses of C04_limit: with `max_failures = 1` the loop stops after the first failure and
rejects any further pick. -/
example : ((build c04F c04P { maxFail := some 1 } c04W [0]).toOption.map (fun r => (r.complete, r.reports))
            = some (true, [(0, Outcome.fail)])) ∧
          (match build c04F c04P { maxFail := some 1 } c04W [0, 2] with | .error .leftover => true | _ => false) = true := by
  decide

/-- Hypothesis of C04_rerun: in the empty database every neighbour of task 0 is unrecorded; after the
failing build it still is, and the next build attempts task 0 again. -/
example : ∃ r r₂, build c04F c04P {} c04W [0, 2, 1, 3] = .ok r ∧ build c04F c04P {} r.w [0, 2, 1, 3] = .ok r₂ ∧
    (0, Outcome.fail) ∈ r₂.reports ∧ (2, Outcome.skipUnchanged) ∈ r₂.reports := by
  refine ⟨_, _, rfl, rfl, ?_⟩
  decide

/-- The honest exception of `C04_rerun`, witnessed: task 0 (writes its product, then raises) has a
recorded row for every neighbour from an earlier success; its product file 20 was removed, so it needs to
run. Build 1: the body restores exactly the recorded content and raises — FAIL, nothing recorded.
Build 2, no edits: every neighbour matches its row — SKIP_UNCHANGED. The witness neighbour is a product
that `t` itself rewrote. -/
def c04Late : Project := ⟨[{ id := 0, src := 90, deps := [10], prods := [20], after := [], beh := .raisesLate }]⟩
def c04LateW : World := ⟨[(10, 5), (90, 7)], [((0, 21), 5), ((0, 0), 7), ((0, 41), 0)]⟩
example : ∃ r r₂, build c04F c04Late {} c04LateW [0] = .ok r ∧ r.reports = [(0, Outcome.fail)] ∧
    build c04F c04Late {} r.w [0] = .ok r₂ ∧ r₂.reports = [(0, Outcome.skipUnchanged)] := by
  refine ⟨_, _, rfl, ?_, rfl, ?_⟩ <;> decide

end Pytask
