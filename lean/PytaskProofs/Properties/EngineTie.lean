-- TIE-PROPS: C01 C02 C03 C04 C05 C06 C08 C09 C10 C17
-- TIE-SECTION: extract_engine
import PytaskProofs.Lemmas.EngineGenRefines
/-!
# EngineTie — the hand-written engine model M6 equals the engine computed from the source

`Engine.lean` (the model under the theorems of C01–C06, C08–C10, C17) writes out by hand what each hook implementation
does. `harness/extract_engine.py` reads the same information from the tree under check into `Generated.Eng.*`, and
`EngineGen.lean` interprets that data. The theorems below say that, **for all arguments**, the interpreters return what
the hand-written definitions return. Their proofs unfold the generated terms, so a change of pytask's source that
alters an extracted fact (a dropped `return True`, `>=` → `>`, another marked task set, a changed guard, `continue` →
`break`, another order in `node_and_neighbors`, another case of `has_node_changed`, a moved dry-run guard …) makes
this module fail to compile: the properties proved over `Engine.*` then no longer speak about the code, and the check
reports PROOF-BROKEN for them.
-/
namespace Pytask
open Engine EngineGen

variable {F : BodyFn} {P : Project} {g : G} {cfg : Cfg}

/-- `node_and_neighbors` (dag_utils.py) chains its parts in the order the model assumes: predecessors, the node,
successors. -/
theorem EngineTie_neighbours (g : G) (t : Nat) : neighboursGen g t = neighbours g t := neighboursGen_eq g t

/-- `has_node_changed` (database_utils.py): run on its extracted cases it always returns a Boolean (it never raises)
and that Boolean is the model's `hasChanged`: a node without state or without recorded row has changed, otherwise the
state is compared with the recorded hash. -/
theorem EngineTie_hasChanged (w : World) (t v : Nat) (st : Option Nat) :
    hasChangedGen w t v st = some (hasChanged w t v st) := hasChangedGen_eq w t v st

/-- `update_states_in_database` skips a dry-run and otherwise writes one row per element of `node_and_neighbors`. -/
theorem EngineTie_recordStates (P : Project) (g : G) (cfg : Cfg) (w : World) (t : Nat) :
    recordStatesGen P g cfg w t = recordStates P g cfg w t := recordStatesGen_eq P g cfg w t

/-- The loop of `execute.pytask_execute_task_setup` over `node_and_neighbors` — its extracted steps (break once the
task is known to run and the node is no predecessor; skip provisional products; raise for a predecessor without
state; `continue` when the task is known to run; else `needs := has_node_changed`) and its predecessor set — computes
the model's `scan`, for every node list and initial flag. -/
theorem EngineTie_scan (P : Project) (g : G) (w : World) (t : Nat) :
    ∃ i gd ps ls, execScan = some (i, gd, ps, ls) ∧
      ∀ (vs : List Nat) (needs : Bool), (scanGen P g w t ps ls (fun _ => false) needs vs).toScan = scan P g w t needs vs := by
  obtain ⟨⟨i, gd, ps, ls⟩, h⟩ := Option.isSome_iff_exists.1 execScan_isSome
  exact ⟨i, gd, ps, ls, h, scanGen_eq P g w t h⟩

/-- Outside the static model: whatever nodes are provisional, the extracted loop passes over a provisional node that
is not a predecessor (`continue`, not `break`): the rest of the neighbours is still examined. -/
theorem EngineTie_scan_skips_provisional (P : Project) (g : G) (w : World) (t : Nat) (prov : Nat → Bool) (v : Nat) (vs : List Nat) :
    ∃ i gd ps ls, execScan = some (i, gd, ps, ls) ∧
      (prov v = true → inPredSet g t ps v = false →
        scanGen P g w t ps ls prov false (v :: vs) = scanGen P g w t ps ls prov false vs) := by
  obtain ⟨⟨i, gd, ps, ls⟩, h⟩ := Option.isSome_iff_exists.1 execScan_isSome
  exact ⟨i, gd, ps, ls, h, scanGen_skips_provisional P g w t h prov v vs⟩

/-- Every implementation of `pytask_execute_task_setup` that pluggy calls (`Generated.setupOrder`: provisional,
skipping, persist, execute), interpreted from its extracted list of guarded `raise`s, raises exactly what the
hand-written `setupImpl` says — for every project, graph, configuration, session and task. -/
theorem EngineTie_setupImpl (s : Sess) (t : TaskSpec) {name : String} (hn : name ∈ Generated.setupOrder) :
    setupImplGen P g cfg s t name = setupImpl P g cfg s t name := setupImplGen_eq s t hn

/-- The whole setup hook. -/
theorem EngineTie_setupChain (s : Sess) (t : TaskSpec) :
    setupChainGen P g cfg s t Generated.setupOrder = setupChain P g cfg s t Generated.setupOrder := setupChainGen_eq s t

/-- Setup, the `pytask_execute_task` hook (pluggy's call order `Generated.executeOrder`, firstresult: wrappers pass the
result through, provisional.py's implementation only acts for task generators, execute.py's implementation has its
dry-run guard before the call of the task function) and the teardown (its checks in extracted order; the "vanished
predecessor" check never fires in the model because a body only adds files) together compute the model's `runPhases`. -/
theorem EngineTie_runPhases (s : Sess) (t : TaskSpec) : runPhasesGen F P g cfg s t = runPhases F P g cfg s t :=
  runPhasesGen_eq s t

/-- The `pytask_execute_task_process_report` chain — every implementation in pluggy's call order
(`Generated.processReportOrder`, firstresult), each interpreted from its extracted arms (test, actions, how the arm
ends) — followed by appending the report, computes the model's `processReport`. For `Persisted` the model's clause is
only meant for the reachable case (states can be recorded, the session has not crashed); the hypothesis is discharged
for every report the protocol actually produces in `EngineTie_protocol`. -/
theorem EngineTie_processReport (s : Sess) (t : TaskSpec) (r : Raised)
    (hp : r = .persisted → (recordStates P g cfg s.w t.id).2 = true ∧ s.crashed = false) :
    processReportGen P g cfg s t r = processReport P g cfg s t r := processReportGen_eq s t r hp

/-- The same without hypothesis for everything but `Persisted`. -/
theorem EngineTie_processReport_other (s : Sess) (t : TaskSpec) (r : Raised) (hr : r ≠ .persisted) :
    processReportGen P g cfg s t r = processReport P g cfg s t r :=
  processReportGen_eq s t r (fun h => absurd h hr)

/-- `pytask_execute_task_protocol` for one task: the three hook calls of the `try` in extracted order, the extracted
handlers (every exception of the model is caught by the `Exception` handler, which does not set `should_stop`), the
report chain. Holds for every session in which no exception has escaped so far — the only sessions in which the
build loop calls the protocol. -/
theorem EngineTie_protocol (s : Sess) (t : TaskSpec) (hc : s.crashed = false) :
    protocolGen F P g cfg s t = protocol F P g cfg s t := protocolGen_eq s t hc

/-- `pytask_execute_build`: `while is_active(): pick get_ready()[0]; protocol; append; done; if should_stop: break`,
interpreted from the extracted statement list, accepts the same pick lists and yields the same sorter and session as
the model's `buildLoop` — unconditionally. -/
theorem EngineTie_buildLoop (picks : List Nat) (so : Sorter) (s : Sess) :
    buildLoopGen F P g cfg so s picks = Engine.buildLoop F P g cfg so s picks := buildLoopGen_eq picks so s

/-- Hence the whole model: `build` with every hook implementation computed from the extracted data is `Engine.build`,
the function all engine properties are stated about. -/
theorem EngineTie_build (w : World) (picks : List Nat) : buildGen F P cfg w picks = Engine.build F P cfg w picks :=
  buildGen_eq w picks

/-! ### non-vacuity: the interpreters do compute the interesting cases -/

def tieP : Project := ⟨[
  { id := 0, src := 90, deps := [10], prods := [20], after := [], beh := .raisesLate },
  { id := 1, src := 90, deps := [20], prods := [21], after := [] },
  { id := 2, src := 90, deps := [10], prods := [22], after := [], persist := true },
  { id := 3, src := 90, deps := [21, 22], prods := [23], after := [], skip := true }]⟩
def tieW : World := ⟨[(10, 5), (90, 7)], []⟩
def tieF : BodyFn := fun t i _ _ => t * 10 + i

/-- The interpreted engine runs a build with a failing task, a skipped dependant, a persisting task and a task
marked `skip` to the same non-trivial result (FAIL, SKIP_PREVIOUS_FAILED, SUCCESS, SKIP; exit code 1). -/
example : (buildGen tieF tieP {} tieW [0, 2, 1, 3]).toOption.map (fun r => (r.reports, r.log, r.exit)) =
    some ([(0, .fail), (2, .success), (1, .skipPrevFailed), (3, .skip)], [0, 2], 1) := by decide

/-- With `max_failures = 1` the interpreted loop stops after the first failure (`>=`) and rejects further picks. -/
example : ((buildGen tieF tieP { maxFail := some 1 } tieW [0]).toOption.map (fun r => (r.complete, r.reports))
            = some (true, [(0, Outcome.fail)])) ∧
          (match buildGen tieF tieP { maxFail := some 1 } tieW [0, 2] with | .error .leftover => true | _ => false) = true := by
  decide

/-- The hypothesis of `EngineTie_processReport` for `Persisted` is satisfiable: a persisting task whose products exist
but are unrecorded is reported PERSISTENCE by the interpreted engine and its states are recorded. -/
example : let w : World := ⟨[(10, 5), (90, 7), (22, 1)], []⟩
    (buildGen tieF ⟨[{ id := 2, src := 90, deps := [10], prods := [22], after := [], persist := true }]⟩ {} w [2]).toOption.map
      (fun r => (r.reports, r.log, r.w.db.length)) = some ([(2, .persistence)], [], 3) := by decide

/-- A dry-run: the interpreted engine reports WOULD_BE_EXECUTED for the due task and its dependants, runs nothing. -/
example : (buildGen tieF tieP { dry := true } tieW [0, 2, 1, 3]).toOption.map (fun r => (r.reports, r.log, r.w.db)) =
    some ([(0, .wouldBeExecuted), (2, .wouldBeExecuted), (1, .wouldBeExecuted), (3, .skip)], [], []) := by decide

end Pytask
