import PytaskProofs.Lemmas.EngineCrash
import PytaskProofs.Lemmas.EngineConverge
import PytaskProofs.Lemmas.CrashGraph
import PytaskProofs.Lemmas.CrashExit
/-!
# C05 — abrupt termination never leaves state that hides outstanding work

Model: `PytaskModel/EngineCrash.lean` refines every build of `PytaskModel/Engine.lean` into the list of its atomic world
updates (one product write, one committed state row); a process killed at any instant leaves `crashAt … k` for some `k`.
Vocabulary (defined in `Lemmas/EngineCrash.lean`):
* `RowsMatch P g w t` — every neighbour of `t` exists and its row equals its state: exactly when pytask reports `t` unchanged;
* `Fresh F w t`      — the products of `t` on disk are what its body makes of the module and dependency contents on disk;
* `Inv F P g w`      — every task whose rows match is fresh (the C02 invariant): *no stale "unchanged"*;
* `RC F P g db`      — every *complete* row set in the database is one consistent snapshot (a property of the database alone,
                       so no file edit can break it; it holds for the empty database and after every finished build);
* `WFSpec P`         — decidable conditions on the declared project: unique task ids, one producer per product, no task consumes
                       its own product or writes a module file, bodies that return have written all their products, no `persist`
                       marks (those record stale products on purpose, cf. C02). `WF P g` adds that the build's graph has the
                       declared edges — derived from `createDag` in `Lemmas/EngineGraph.lean`.
-/
namespace Pytask
open Engine

/-- **applySteps_all.** Applying all atomic updates that the step model lists for a build gives exactly the world that
`Engine.build` computes: the step model refines the engine model, `crashAt k` for large `k` is the finished build and the
shorter prefixes are the worlds a kill can leave behind. -/
theorem C05_applySteps_all (F : BodyFn) (P : Project) (cfg : Cfg) (w : World) (picks : List Nat) (r : Result)
    (h : build F P cfg w picks = .ok r) : applySteps w (buildSteps F P cfg w picks) = r.w :=
  applySteps_build F P cfg w picks r h

/-- **C05_rows_safe** (`inv_crash`). Start any build — any configuration (forced, dry, selections, failure limit), any legal
schedule, bodies that succeed, raise early or raise after writing — in a world whose database is row-consistent, and kill it
after any number `k` of atomic updates: in the world that is left, every task whose rows all match the files has fresh
products. So the next build can report a task unchanged only if its products are what its body would produce now — torn row
sets (some rows of a task committed, the others not) and half-written product sets included. -/
theorem C05_rows_safe (F : BodyFn) (P : Project) (cfg : Cfg) (w : World) (g : G) (marks : List Nat)
    (hdag : createDag P cfg = .ok (g, marks)) (hs : WFSpec P) (hrc : RC F P g w.db) (picks : List Nat) (k : Nat) :
    Inv F P g (crashAt F P cfg w picks k) := by
  have hwf := wf_of_createDag hdag hs
  unfold crashAt buildSteps
  simp only [hdag]
  cases hso : Sorter.fromDag g isTaskV (prioFn P) with
  | error e => simpa using inv_of_rc hwf w hrc
  | ok so => exact inv_loop_prefix hwf cfg picks so { w := w, skipMarks := marks } hrc k

/-- The hypothesis of `C05_rows_safe` holds initially … -/
theorem C05_rc_init (F : BodyFn) (P : Project) (g : G) : RC F P g [] := by
  intro t _ hall
  have := hall (tv t.id) (tv_mem_neighbours g t.id)
  simp [lookup] at this

/-- … and after every build that ran to its end with exit code 0 (and it does not mention the files, so arbitrary edits of
inputs, modules and products between builds keep it): every pre-crash history of finished builds and file edits leads to a
world to which `C05_rows_safe` applies. -/
theorem C05_rc_build (F : BodyFn) (P : Project) (cfg : Cfg) (w : World) (g : G) (marks : List Nat)
    (hdag : createDag P cfg = .ok (g, marks)) (hs : WFSpec P) (hrc : RC F P g w.db) (picks : List Nat) (r : Result)
    (hb : build F P cfg w picks = .ok r) (hexit : r.exit = 0) : RC F P g r.w.db := by
  have hwf := wf_of_createDag hdag hs
  unfold build at hb
  simp only [hdag] at hb
  cases hso : Sorter.fromDag g isTaskV (prioFn P) with
  | error e => simp only [hso] at hb; cases hb; exact hrc
  | ok so =>
    simp only [hso] at hb
    cases hl : buildLoop F P g cfg so { w := w, skipMarks := marks } picks with
    | error e => simp only [hl] at hb; cases hb
    | ok res =>
      obtain ⟨so', s'⟩ := res
      simp only [hl] at hb
      cases hb
      rcases rc_loop hwf cfg picks so _ so' s' hrc hl with hcr | h
      · simp only [hcr, if_true] at hexit
        exact absurd hexit (by decide)
      · exact h

/-- **C05_no_redo_step** (the local form). Suppose the killed build completed the protocol of `spec` with SUCCESS — body and teardown went through
and every row of `spec` was committed (`hok`) — and whatever happened afterwards, before the kill and in the recovery build
before `spec`'s turn (`later`), left `spec`'s module, dependencies and products alone. Then a non-forced recovery build does
not execute `spec` again: its protocol raises before the body, the body log and the session are unchanged. (`hT`: the
neighbours of a task are nodes, not other tasks — the graph is bipartite.) -/
theorem C05_no_redo_step (F : BodyFn) (P : Project) (g : G) (cfg cfg' : Cfg) (s s' : Sess) (spec : TaskSpec)
    (hT : ∀ v ∈ neighbours g spec.id, isTaskV v = true → v = tv spec.id)
    (hr : (runPhases F P g cfg s spec).1 = .none)
    (hok : (updateStates P g (runPhases F P g cfg s spec).2.w spec.id (neighbours g spec.id)).2 = true)
    (later : List Step) (hav : ∀ st ∈ later, StepAvoids P g spec.id st)
    (hs' : s'.w = applySteps (protocol F P g cfg s spec).w later) (hforce : cfg'.force = false) :
    (protocol F P g cfg' s' spec).log = s'.log ∧ (runPhases F P g cfg' s' spec).2 = s' := by
  have hm : RowsMatch P g s'.w spec.id := by
    rw [hs']
    exact rowsMatch_frame P g spec.id hT later _ hav (rowsMatch_after_protocol F P g cfg s spec hr hok)
  exact ⟨protocol_rowsMatch_log F P g cfg' s' spec hforce hm, (runPhases_rowsMatch F P g cfg' s' spec hforce hm).1⟩

/-- **C05_no_redo.** A build is killed at an arbitrary point `j` of the protocol of `tstar`, after it had processed the tasks
`done`, each reported SUCCESS or SKIP_UNCHANGED (so their completion had been logged). Then a non-forced recovery build — any
schedule, any selection or failure limit, whatever else it executes, fails or skips — does not execute any task of `done`
again. (With `C05_converge_partial`: the others run again if they need to, these never do.) -/
theorem C05_no_redo (F : BodyFn) (P : Project) (cfg cfg' : Cfg) (g : G) (marks marks' : List Nat)
    (hs : WFSpec P) (hdag : createDag P cfg = .ok (g, marks))
    (so0 : Sorter) (hso : Sorter.fromDag g isTaskV (prioFn P) = .ok so0)
    (w0 : World) (done : List Nat) (tstar : Nat) (specS : TaskSpec) (so1 soS : Sorter) (s1 sS : Sess)
    (hloop1 : buildLoop F P g cfg so0 { w := w0, skipMarks := marks } done = .ok (so1, s1))
    (hgood1 : ∀ rep ∈ s1.reports, GoodOutcome rep.2) (hcr1 : s1.crashed = false)
    (hpickS : buildLoop F P g cfg so1 s1 [tstar] = .ok (soS, sS)) (hfindS : Project.find? P tstar = some specS) (j : Nat)
    (picks2 : List Nat) (so3 : Sorter) (s3 : Sess)
    (hloop2 : buildLoop F P g cfg' so0
      { w := applySteps s1.w ((protocolSteps F P g cfg s1 specS).take j), skipMarks := marks' } picks2 = .ok (so3, s3))
    (hforce : cfg'.force = false) : ∀ t ∈ done, t ∉ s3.log := by
  have hwf := wf_of_createDag hdag hs
  have hbip := hbip_of_createDag hdag
  have hD1 : ∀ t' ∈ done, RowsMatch P g s1.w t' := by
    have := rowsMatch_loop hwf hbip cfg done so0 _ so1 s1 [] (fun _ h => by cases h) hloop1 hgood1 hcr1
      (frameOrdered_of_loop F hdag hs so0 so1 _ s1 done hso hloop1)
    simpa using this
  have hav := avoids_of_loop F hdag hs so0 so1 _ s1 done hso hloop1
  have hnot : tstar ∉ done := by
    have hnd := (C01_once F P cfg g so0 soS _ sS (done ++ [tstar]) hso
      (buildLoop_append_ok F P g cfg done [tstar] so0 _ so1 s1 (soS, sS) hloop1 hpickS)).1
    exact fun h => (List.nodup_append.1 hnd).2.2 tstar h tstar (by simp) rfl
  have hidS : specS.id = tstar := find?_id hfindS
  have hDw : ∀ t' ∈ done,
      RowsMatch P g (applySteps s1.w ((protocolSteps F P g cfg s1 specS).take j)) t' := by
    intro t' ht'
    apply rowsMatch_frame P g t' (hbip t') _ _ _ (hD1 t' ht')
    intro x hx
    exact protocolSteps_avoid F P g cfg s1 specS t' (by rw [hidS]; exact fun h => hnot (h ▸ ht'))
      (hav tstar specS hfindS hnot t' ht') x (List.mem_of_mem_take hx)
  obtain ⟨_, l, hl, hl'⟩ := noredo_loop F hbip hs.noPersist cfg' hforce done hav picks2 so0 _ so3 s3 hDw hloop2
  intro t ht hin
  rw [hl] at hin
  exact hl' t (by simpa using hin) ht

/-- **C05_unchanged_iff_rows** ("reports unchanged" is "all rows match"): the link between the outcome pytask shows and
`RowsMatch`, in both directions, for non-forced builds. -/
theorem C05_unchanged_rows (F : BodyFn) (P : Project) (g : G) (cfg : Cfg) (s : Sess) (t : TaskSpec)
    (h : (runPhases F P g cfg s t).1 = .skippedUnchanged) : RowsMatch P g s.w t.id :=
  (rowsMatch_of_skippedUnchanged F P g cfg s t h).1

/-- **C05_converge_step** (one step of convergence). In any world in which `Inv` holds — by `C05_rows_safe` that is every
world a kill can leave — a protocol of `spec` (any configuration) that is reported SUCCESS or SKIP_UNCHANGED leaves the
products of `spec` fresh: what its body produces from the contents its module and dependencies have at that moment. A task
that needed to run and did not complete cannot be reported unchanged with stale products; if it is reported SUCCESS it has been
executed. The chaining of these steps along the task order is `C05_converge_partial` below. -/
theorem C05_converge_step (F : BodyFn) (P : Project) (g : G) (cfg : Cfg) (s : Sess) (spec : TaskSpec)
    (hwf : WF P g) (hspec : spec ∈ P.tasks) (hinv : Inv F P g s.w)
    (hout : (runPhases F P g cfg s spec).1 = .none ∨ (runPhases F P g cfg s spec).1 = .skippedUnchanged) :
    Fresh F (protocol F P g cfg s spec).w spec := by
  have hfs : (protocol F P g cfg s spec).w.fs = (runPhases F P g cfg s spec).2.w.fs := by
    rw [← applySteps_protocol]
    unfold protocolSteps
    simp only []
    rw [applySteps_append, applySteps_phases]
    exact applySteps_onlyRows_fs (reportSteps_onlyRows P g cfg _ spec _) _
  rcases hout with h | h
  · exact fresh_of_fs_eq hfs
      (runPhases_none_fresh F P g cfg s spec (hwf.nodup spec hspec) (hwf.disj spec hspec) (hwf.honest spec hspec) h)
  · obtain ⟨hm, hs⟩ := rowsMatch_of_skippedUnchanged F P g cfg s spec h
    exact fresh_of_fs_eq (by rw [hfs, hs]) (hinv spec hspec hm)

/-- **C05_converge_partial.** A build (configuration `cfg`) is started in a row-consistent world `w0` (`hrc`; every pre-crash
history of finished builds and file edits gives one, `C05_rc_init/_build`), processes the tasks `done` — each reported SUCCESS or
SKIP_UNCHANGED — picks `tstar` and is killed after an arbitrary number `j` of the atomic updates of `tstar`'s protocol (before
it, between two product writes, between two row commits, after it). A recovery build (any configuration `cfg'`: forced or not,
any legal schedule `picks2`) then runs in the world the kill left, processes every task and reports SUCCESS or SKIP_UNCHANGED for
each. Then
* every product on disk is its body's function of the module and dependency contents on disk — the from-scratch fixpoint;
* all rows of all tasks match the files;
* every later non-forced build executes nothing and changes nothing ("then stays quiet").

All scheduling facts are derived (`Lemmas/EngineGraph.lean`): the graph is the one `createDag` builds, the sorter the one
`from_dag` builds, `C01_order` / `C01_once` give that producers are processed before consumers and nobody writes into the
neighbourhood of an already processed task. `WFSpec P` are decidable conditions on the declared project (unique ids and
producers, no self-consumption, bodies that return have written their products, no `persist`).

*What separates this from the full statement:* "every report is SUCCESS or SKIP_UNCHANGED" stands for "exit code 0 and no skip
markers / selections" (the step from exit code to reports is C08's); and the tasks the killed build processed *before* the kill
are assumed to have ended SUCCESS / SKIP_UNCHANGED — for killed builds with failed or skipped tasks one needs the failure
containment `C04_contain` (a task whose body ran has no failed or skipped producer) to see that the torn task's producers are
settled. Torn row sets, half-written product sets, forced recovery builds and every `j` are covered. -/
theorem C05_converge_partial (F : BodyFn) (P : Project) (cfg cfg' : Cfg) (g : G) (marks marks' : List Nat)
    (hs : WFSpec P) (hdag : createDag P cfg = .ok (g, marks)) (hdag' : createDag P cfg' = .ok (g, marks'))
    (so0 : Sorter) (hso : Sorter.fromDag g isTaskV (prioFn P) = .ok so0)
    -- the killed build
    (w0 : World) (hrc : RC F P g w0.db) (done : List Nat) (tstar : Nat) (specS : TaskSpec) (so1 soS : Sorter) (s1 sS : Sess)
    (hloop1 : buildLoop F P g cfg so0 { w := w0, skipMarks := marks } done = .ok (so1, s1))
    (hgood1 : ∀ rep ∈ s1.reports, GoodOutcome rep.2)
    (hpickS : buildLoop F P g cfg so1 s1 [tstar] = .ok (soS, sS)) (hfindS : Project.find? P tstar = some specS) (j : Nat)
    -- the recovery build, in a new process
    (picks2 : List Nat) (so3 : Sorter) (s3 : Sess)
    (hloop2 : buildLoop F P g cfg' so0
      { w := applySteps s1.w ((protocolSteps F P g cfg s1 specS).take j), skipMarks := marks' } picks2 = .ok (so3, s3))
    (hgood2 : ∀ rep ∈ s3.reports, GoodOutcome rep.2) (hcr : s3.crashed = false) (hall : ∀ t ∈ P.tasks, t.id ∈ picks2) :
    (∀ t ∈ P.tasks, Fresh F s3.w t) ∧ (∀ t ∈ P.tasks, RowsMatch P g s3.w t.id) ∧
    (∀ (cfg'' : Cfg) (so4 so5 : Sorter) (s4 s5 : Sess) (picks : List Nat), cfg''.force = false → s4.w = s3.w →
        buildLoop F P g cfg'' so4 s4 picks = .ok (so5, s5) → s5.log = s4.log ∧ s5.w = s4.w) :=
  converge_abstract F P g cfg cfg' (wf_of_createDag hdag hs) (wf2_of_spec hs) (hbip_of_createDag hdag)
    so0 so1 _ s1 hrc done tstar specS hloop1 hgood1 hfindS
    (dataOrdered_of_loop F hdag hs so0 soS _ sS (done ++ [tstar]) hso
      (buildLoop_append_ok F P g cfg done [tstar] so0 _ so1 s1 (soS, sS) hloop1 hpickS))
    j _ rfl so0 so3 _ s3 rfl picks2 hloop2 hgood2 hcr hall
    (dataOrdered_of_loop F hdag' hs so0 so3 _ s3 picks2 hso hloop2)
    (frameOrdered_of_loop F hdag' hs so0 so3 _ s3 picks2 hso hloop2)

/-- **C05_converge** (the statement in terms of what pytask returns). As `C05_converge_partial`, with the recovery build given
as a `build` result: a project without skip markers, a recovery build without `-k`/`-m` selection and not a dry-run (forced
or not, any failure limit), whose loop ran to its end (`complete`) and which returned **exit code 0**. Then every product is
its body's function of the module and dependency contents on disk, all rows match, and every later non-forced build, under
any configuration, executes nothing and leaves the world as it is. (The remaining gap to the property text is on the side of
the *killed* build only: the tasks it had processed before the kill are assumed to have ended SUCCESS / SKIP_UNCHANGED; see
`C05_converge_partial`.) -/
theorem C05_converge (F : BodyFn) (P : Project) (cfg cfg' : Cfg) (g : G) (marks : List Nat)
    (hs : WFSpec P) (hns : NoSkips P) (hdag : createDag P cfg = .ok (g, marks))
    (so0 : Sorter) (hso : Sorter.fromDag g isTaskV (prioFn P) = .ok so0)
    -- the killed build
    (w0 : World) (hrc : RC F P g w0.db) (done : List Nat) (tstar : Nat) (specS : TaskSpec) (so1 soS : Sorter) (s1 sS : Sess)
    (hloop1 : buildLoop F P g cfg so0 { w := w0, skipMarks := marks } done = .ok (so1, s1))
    (hgood1 : ∀ rep ∈ s1.reports, GoodOutcome rep.2)
    (hpickS : buildLoop F P g cfg so1 s1 [tstar] = .ok (soS, sS)) (hfindS : Project.find? P tstar = some specS) (j : Nat)
    -- the recovery build
    (hk : cfg'.selK = none) (hm : cfg'.selM = none) (hdry : cfg'.dry = false) (picks2 : List Nat) (r : Result)
    (hb : build F P cfg' (applySteps s1.w ((protocolSteps F P g cfg s1 specS).take j)) picks2 = .ok r)
    (hexit : r.exit = 0) (hcomplete : r.complete = true) :
    (∀ t ∈ P.tasks, Fresh F r.w t) ∧ (∀ t ∈ P.tasks, RowsMatch P g r.w t.id) ∧
    (∀ (cfg'' : Cfg) (picks : List Nat) (r' : Result), cfg''.force = false → build F P cfg'' r.w picks = .ok r' →
        r'.log = [] ∧ r'.w = r.w) := by
  obtain ⟨marks', hdag'⟩ := createDag_cfg P cfg cfg' g marks hdag
  have hmarks : marks' = [] := by rw [createDag_marks P cfg' g marks' hdag', deselected_none P g cfg' hk hm]
  subst hmarks
  obtain ⟨so3, s3, hloop2, hw, _, hex, hco⟩ := build_ok_loop F P cfg' _ picks2 r g [] so0 hdag' hso hb
  rw [hex] at hexit
  obtain ⟨hcr, hnf⟩ := exit_zero hexit
  have hnofail : ∀ rep ∈ s3.reports, rep.2 ≠ .fail := by
    intro rep hrep hf
    have : s3.reports.any (fun r => r.2 == .fail) = true := List.any_eq_true.2 ⟨rep, hrep, by simp [hf]⟩
    rw [this] at hnf; cases hnf
  obtain ⟨hgood2, hstop⟩ := clean_loop F P g cfg' hdry hns hs.noPersist picks2 so0 _ so3 s3 ⟨rfl, rfl, rfl, rfl⟩
    (fun _ h => by cases h) hloop2 hnofail hcr
  have hinactive : so3.isActive = false := by
    rw [hco, hstop, hcr] at hcomplete
    simpa using hcomplete
  have hall := all_picked F hdag' so0 so3 _ s3 picks2 hso hloop2 hinactive
  obtain ⟨h1, h2, h3⟩ := C05_converge_partial F P cfg cfg' g marks [] hs hdag hdag' so0 hso w0 hrc done tstar specS so1 soS s1 sS
    hloop1 hgood1 hpickS hfindS j picks2 so3 s3 hloop2 hgood2 hcr hall
  rw [hw]
  refine ⟨h1, h2, ?_⟩
  intro cfg'' picks r' hforce hb'
  obtain ⟨marks'', hdag''⟩ := createDag_cfg P cfg cfg'' g marks hdag
  obtain ⟨so5, s5, hloop3, hw', hl', _, _⟩ := build_ok_loop F P cfg'' _ picks r' g marks'' so0 hdag'' hso hb'
  have := h3 cfg'' so0 so5 { w := s3.w, skipMarks := marks'' } s5 picks hforce rfl hloop3
  rw [hw', hl']
  exact ⟨this.1, this.2⟩

/-! ### The limit: an edit between the kill and the recovery build (finding F50)

Read literally ("no later build …"), the property also covers builds that follow *edits made after the kill*. At that strength
it is **false of the current code**: a kill between two row commits of a task leaves a row set that mixes two snapshots, and a
later edit that puts one input back can make every row match although the product belongs to neither snapshot's inputs.
Witness (replayed on the real code, `findings/F50.json`): a task that writes whether its two inputs agree; both inputs are
edited from `0` to `1` (the product stays the same), the rebuild is killed after the first row commit, the second input is put
back to `0`: all four rows match, the task is reported unchanged, the product still says "agree". -/

/-- The statement at full strength: `Inv` also survives an edit of an input file made after the kill. -/
def C05_edit_after_kill_full : Prop :=
  ∀ (F : BodyFn) (P : Project) (cfg : Cfg) (w : World) (g : G) (marks : List Nat) (picks : List Nat) (k n c : Nat),
    createDag P cfg = .ok (g, marks) → WFSpec P → RC F P g w.db → (∀ t ∈ P.tasks, n ∉ t.prods) →
    Inv F P g (applyStep (crashAt F P cfg w picks k) (.write n c))

theorem C05_edit_after_kill_full_false : ¬ C05_edit_after_kill_full := by
  intro h
  have hinv := h f50F f50P {} f50W f50G [] [0] 2 11 0 (by rfl) f50_wfspec f50_rc (by decide)
  have hF := hinv f50T (by simp [f50P]) f50_rowsMatch (20, 0) (by decide)
  exact absurd hF (by decide)

/-- **C05_edit_after_kill_partial.** What is true with edits: if the kill did not cut a row set in two — the database left
behind is row-consistent, e.g. because the kill fell outside `update_states_in_database`, or because all rows of a task are
committed in one transaction (the repair proposed in `fixes/F50.diff`) — then `Inv` holds for *every* content of the files, so
no sequence of later edits can produce a stale "unchanged". -/
theorem C05_edit_after_kill_partial (F : BodyFn) (P : Project) (g : G) (hwf : WF P g) (w : World) (hrc : RC F P g w.db)
    (fs' : FS) : Inv F P g { w with fs := fs' } :=
  inv_of_rc hwf _ hrc

/-- **memo_garbage_ok.** Whatever bytes a killed writer (or anything else) left in `.pytask/file_hashes.json`: if they do not
parse, `pytask_post_parse` starts with the empty memo (`Generated.memoLoadSuppressed`: the whole load sits in
`suppress(Exception)`), never with an exception; the empty memo is coherent, and under a coherent memo the state of a file
computed through the memo is the hash of its current content — which is how `Engine.stateOf` models it. -/
theorem C05_memo_garbage_ok (parse : List UInt8 → Option Memo) (file : Option (List UInt8)) :
    (∃ m, loadMemo parse file = some m ∧ (m = [] ∨ ∃ b, file = some b ∧ parse b = some m)) ∧
    (∀ mtime content, MemoCoherent [] mtime content) ∧
    (∀ (m : Memo) (mtime content : Nat → Option Nat) (p t c : Nat), MemoCoherent m mtime content → mtime p = some t →
        content p = some c → stateVia m p t c = c) := by
  refine ⟨?_, ?_, ?_⟩
  · unfold loadMemo loadMemoWith
    cases file with
    | none => exact ⟨[], by simp [Generated.memoLoadSuppressed], Or.inl rfl⟩
    | some b =>
      cases hp : parse b with
      | none => exact ⟨[], by simp [Generated.memoLoadSuppressed, hp], Or.inl rfl⟩
      | some m => exact ⟨m, by simp [hp], Or.inr ⟨b, rfl, hp⟩⟩
  · intro mtime content p t h hl
    simp [lookup] at hl
  · intro m mtime content p t c hcoh hmt hc
    unfold stateVia
    cases hl : lookup m (p, t) with
    | none => rfl
    | some h =>
      have := hcoh p t h hl hmt
      rw [hc] at this
      exact (Option.some.inj this).symm

/-! ## Non-vacuity: a concrete two-task chain, killed in the middle of the row commits of its first task -/

example : createDag c05P {} = .ok (c05G, []) := by rfl

/-- the build has 10 atomic updates; after 4 of them both products of task 0 are written and two of its four rows committed -/
example : (buildSteps c05F c05P {} c05W [0, 1]).length = 10 := by decide
example : (crashAt c05F c05P {} c05W [0, 1] 4).db.length = 2 ∧ (crashAt c05F c05P {} c05W [0, 1] 4).fs.length = 4 := by decide
/-- `C05_rows_safe` applies to that torn world -/
example : Inv c05F c05P c05G (crashAt c05F c05P {} c05W [0, 1] 4) :=
  C05_rows_safe c05F c05P {} c05W c05G [] (by rfl) c05_wfspec (C05_rc_init _ _ _) [0, 1] 4
/-- the recovery build from the torn world executes both tasks again (task 0 did not complete), then nothing -/
example : (build c05F c05P {} (crashAt c05F c05P {} c05W [0, 1] 4) [0, 1]).toOption.map (·.log) = some [0, 1] := by decide
/-- killed after all rows of task 0 were committed (8 = 2 writes + 4 rows + task 1's write + 1 row): task 0 is not executed again -/
example : (build c05F c05P {} (crashAt c05F c05P {} c05W [0, 1] 8) [0, 1]).toOption.map (·.log) = some [1] := by decide
/-- hypotheses of `C05_no_redo` on this project: the protocol of task 0 succeeds and commits all its rows -/
example : (runPhases c05F c05P c05G {} { w := c05W } c05P.tasks.head!).1 = .none ∧
    (updateStates c05P c05G (runPhases c05F c05P c05G {} { w := c05W } c05P.tasks.head!).2.w 0 (neighbours c05G 0)).2 = true := by decide
/-- `C05_converge_partial` instantiated: the build is killed after 4 atomic updates (inside the row commits of task 0), the
recovery build processes 0 and 1 and reports SUCCESS for both — all hypotheses hold on this project, and the conclusion gives
the from-scratch fixpoint for the recovered world. -/
example : ∃ (so3 : Sorter) (s3 : Sess),
    buildLoop c05F c05P c05G {} c05So { w := applySteps c05W ((protocolSteps c05F c05P c05G {} { w := c05W } c05T0).take 4) } [0, 1]
      = .ok (so3, s3) ∧ s3.reports = [(0, .success), (1, .success)] ∧ ∀ t ∈ c05P.tasks, Fresh c05F s3.w t := by
  refine ⟨_, _, rfl, by decide, ?_⟩
  exact (C05_converge_partial c05F c05P {} {} c05G [] [] c05_wfspec (by rfl) (by rfl) c05So (by rfl)
    c05W (C05_rc_init _ _ _) [] 0 c05T0 c05So _ { w := c05W } _ rfl (by intro rep h; cases h) rfl rfl 4
    [0, 1] _ _ rfl (by decide) (by decide) (by intro t ht; simp [c05P] at ht; rcases ht with rfl | rfl <;> decide)).1

/-- `C05_no_redo` instantiated: task 0 completed, the build is killed inside the row commits of task 1 (after its product write
and one row), the recovery build processes 0 and 1: its hypotheses hold, and it yields that task 0 is not executed again. -/
example : ∃ (so1 soS so3 : Sorter) (s1 sS s3 : Sess),
    buildLoop c05F c05P c05G {} c05So { w := c05W, skipMarks := [] } [0] = .ok (so1, s1) ∧
    buildLoop c05F c05P c05G {} so1 s1 [1] = .ok (soS, sS) ∧
    buildLoop c05F c05P c05G {} c05So
      { w := applySteps s1.w ((protocolSteps c05F c05P c05G {} s1 c05T1).take 2), skipMarks := [] } [0, 1] = .ok (so3, s3) ∧
    s3.log = [1] ∧ ∀ t ∈ [0], t ∉ s3.log := by
  refine ⟨_, _, _, _, _, _, rfl, rfl, rfl, by decide, ?_⟩
  exact C05_no_redo c05F c05P {} {} c05G [] [] c05_wfspec (by rfl) c05So (by rfl) c05W [0] 1 c05T1 _ _ _ _ rfl (by decide) rfl
    rfl rfl 2 [0, 1] _ _ rfl rfl

/-- `C05_converge` instantiated: killed inside the row commits of task 0; the recovery `build` returns exit code 0 with a complete
loop — all hypotheses hold, the conclusion gives the from-scratch fixpoint of the recovered world. -/
example : ∃ r : Result,
    build c05F c05P {} (applySteps c05W ((protocolSteps c05F c05P c05G {} { w := c05W, skipMarks := [] } c05T0).take 4)) [0, 1] = .ok r ∧
    r.exit = 0 ∧ r.complete = true ∧ r.log = [0, 1] ∧ ∀ t ∈ c05P.tasks, Fresh c05F r.w t := by
  refine ⟨_, rfl, by decide, by decide, by decide, ?_⟩
  exact (C05_converge c05F c05P {} {} c05G [] c05_wfspec
    (by intro t ht; simp [c05P] at ht; rcases ht with rfl | rfl <;> exact ⟨rfl, rfl⟩) (by rfl) c05So (by rfl)
    c05W (C05_rc_init _ _ _) [] 0 c05T0 c05So _ _ _ rfl (by intro rep h; cases h) rfl rfl 4 rfl rfl rfl [0, 1] _ rfl
    (by decide) (by decide)).1

/-- the F50 witness in the model: after the kill and the edit, the recovery build reports the task unchanged and leaves the
stale product (`0` = "agree") although the inputs now differ (`1`, `0`) -/
example : (build f50F f50P {} (applyStep (crashAt f50F f50P {} f50W [0] 2) (.write 11 0)) [0]).toOption.map
    (fun r => (r.reports, r.log, lookup r.w.fs 20)) = some ([(0, .skipUnchanged)], [], some 0) := by decide

/-- garbage in the memo file loads as the empty memo -/
example : loadMemo (fun _ => none) (some [0xff, 0xfe]) = some [] := by decide

end Pytask
