import PytaskProofs.Lemmas.CrashTxn
/-!
# C05 — abrupt termination never leaves state that hides outstanding work

Model: `PytaskModel/EngineCrash.lean` refines every build of `PytaskModel/Engine.lean` into the list of its atomic world
updates: one product write, or ALL state rows of one task in one transaction (`Generated.rowsSingleTransaction`, extracted
from `database_utils.py` — the code after the repair of finding F50); a process killed at any instant leaves `crashAt … k`
for some `k`. Vocabulary (defined in `Lemmas/EngineCrash.lean`):
* `RowsMatch P g w t` — every neighbour of `t` exists and its row equals its state: exactly when pytask reports `t` unchanged;
* `Fresh F w t`      — the products of `t` on disk are what its body makes of the module and dependency contents on disk;
* `Inv F P g w`      — every task whose rows match is fresh (the C02 invariant): *no stale "unchanged"*;
* `RC F P g db`      — every *complete* row set in the database is one consistent snapshot (a property of the database alone,
                       so no file edit can break it; it holds for the empty database, after every finished build, and — with
                       one transaction per task — at every kill point);
* `WFSpec P`         — decidable conditions on the declared project: unique task ids, one producer per product, no task consumes
                       its own product or writes a module file, bodies that return have written all their products, no `persist`
                       marks (those record stale products on purpose, cf. C02).
The per-row step lists `…Each` (one commit per row, the code before the repair) remain as the fine-grained refinement:
`Lemmas/CrashTxn.lean` shows that every kill-point world of the transactional lists is one of theirs.
-/
namespace Pytask
open Engine

/-- **applySteps_all.** Applying all atomic updates that the step model lists for a build gives exactly the world that
`Engine.build` computes (task ids are unique; `update_states_in_database` never raises, `EngineNoCrash.lean`): the step model
refines the engine model, `crashAt k` for large `k` is the finished build and the shorter prefixes are the worlds a kill can
leave behind. -/
theorem C05_applySteps_all (F : BodyFn) (P : Project) (cfg : Cfg) (w : World) (picks : List Nat) (r : Result)
    (g : G) (marks : List Nat) (hdag : createDag P cfg = .ok (g, marks)) (hn : (P.tasks.map (·.id)).Nodup)
    (h : build F P cfg w picks = .ok r) : applySteps w (buildSteps F P cfg w picks) = r.w := by
  unfold build at h
  unfold buildSteps
  simp only [hdag] at h ⊢
  cases hso : Sorter.fromDag g isTaskV (prioFn P) with
  | error e => simp only [hso] at h; cases h; rfl
  | ok so =>
    simp only [hso] at h ⊢
    cases hl : buildLoop F P g cfg so { w := w, skipMarks := marks } picks with
    | error e => simp only [hl] at h; cases h
    | ok res =>
      obtain ⟨so', s'⟩ := res
      simp only [hl] at h
      cases h
      exact applySteps_loop_txn F P g cfg picks so _ so' s' hl
        (Run.no_crash hdag hn (run_of_buildLoop picks so _ so' s' hl) rfl)

/-- **C05_rows_safe** (`inv_crash`). Start any build — any configuration (forced, dry, selections, failure limit), any legal
schedule, bodies that succeed, raise early or raise after writing — in a world whose database is row-consistent, and kill it
after any number `k` of atomic updates: in the world that is left, every task whose rows all match the files has fresh
products. So the next build can report a task unchanged only if its products are what its body would produce now —
half-written product sets included. -/
theorem C05_rows_safe (F : BodyFn) (P : Project) (cfg : Cfg) (w : World) (g : G) (marks : List Nat)
    (hdag : createDag P cfg = .ok (g, marks)) (hs : WFSpec P) (hrc : RC F P g w.db) (picks : List Nat) (k : Nat) :
    Inv F P g (crashAt F P cfg w picks k) := by
  obtain ⟨k', hk'⟩ := crashAt_txn F P cfg w picks k
  rw [hk']
  exact rows_safe_each F P cfg w g marks hdag hs hrc picks k'

/-- The hypothesis of `C05_rows_safe` holds initially … -/
theorem C05_rc_init (F : BodyFn) (P : Project) (g : G) : RC F P g [] := by
  intro t _ hall
  have := hall (tv t.id) (tv_mem_neighbours g t.id)
  simp [lookup] at this

/-- … and after every build that ran to its end with exit code 0 (and it does not mention the files, so arbitrary edits of
inputs, modules and products between builds keep it): every pre-crash history of finished builds and file edits leads to a
world to which `C05_rows_safe` applies. -/
theorem C05_rc_build (F : BodyFn) (P : Project) (cfg : Cfg) (w : World) (g : G) (marks : List Nat)
    (hdag : createDag P cfg = .ok (g, marks)) (hs : WFSpec P) (hrc : RC F P g w.db) (picks : List Nat) (r : Result)
    (hb : build F P cfg w picks = .ok r) (hexit : r.exit = 0) : RC F P g r.w.db := by
  have hwf := wf_of_createDag hdag hs
  unfold build at hb
  simp only [hdag] at hb
  cases hso : Sorter.fromDag g isTaskV (prioFn P) with
  | error e => simp only [hso] at hb; cases hb; exact hrc
  | ok so =>
    simp only [hso] at hb
    cases hl : buildLoop F P g cfg so { w := w, skipMarks := marks } picks with
    | error e => simp only [hl] at hb; cases hb
    | ok res =>
      obtain ⟨so', s'⟩ := res
      simp only [hl] at hb
      cases hb
      rcases rc_loop hwf cfg picks so _ so' s' hrc hl with hcr | h
      · simp only [hcr, if_true] at hexit
        exact absurd hexit (by decide)
      · exact h

/-- **C05_rc_crash.** With all rows of a task in one transaction, the database a kill leaves behind is row-consistent — at
every kill point of every build started in a row-consistent world. (Uses `Generated.rowsSingleTransaction = true`: with one
commit per row a kill between two commits leaves a row set that mixes two snapshots, finding F50.) So every history of
builds, kills and file edits keeps `RC`, and `C05_rows_safe` applies again to the next build whatever happened before. -/
theorem C05_rc_crash (F : BodyFn) (P : Project) (cfg : Cfg) (w : World) (g : G) (marks : List Nat)
    (hdag : createDag P cfg = .ok (g, marks)) (hs : WFSpec P) (hrc : RC F P g w.db) (picks : List Nat) (k : Nat) :
    RC F P g (crashAt F P cfg w picks k).db :=
  rc_crashAt hdag (wf_of_createDag hdag hs) w hrc picks k

/-- The statement at full strength: `Inv` also survives an edit of an input file made after the kill ("no later build …",
read literally). It was false of the code with one commit per row (finding F50: kill between two row commits, then one input
put back); it holds of the code with one transaction per task. -/
def C05_edit_after_kill_full : Prop :=
  ∀ (F : BodyFn) (P : Project) (cfg : Cfg) (w : World) (g : G) (marks : List Nat) (picks : List Nat) (k n c : Nat),
    createDag P cfg = .ok (g, marks) → WFSpec P → RC F P g w.db → (∀ t ∈ P.tasks, n ∉ t.prods) →
    Inv F P g (applyStep (crashAt F P cfg w picks k) (.write n c))

theorem C05_edit_after_kill : C05_edit_after_kill_full := by
  intro F P cfg w g marks picks k n c hdag hs hrc _
  exact inv_of_rc (wf_of_createDag hdag hs) _ (C05_rc_crash F P cfg w g marks hdag hs hrc picks k)

/-- **C05_edits_after_kill.** More generally: whatever the files are turned into after the kill (any sequence of edits of
inputs, modules and products), no task can be reported unchanged with stale products. -/
theorem C05_edits_after_kill (F : BodyFn) (P : Project) (cfg : Cfg) (w : World) (g : G) (marks : List Nat)
    (hdag : createDag P cfg = .ok (g, marks)) (hs : WFSpec P) (hrc : RC F P g w.db) (picks : List Nat) (k : Nat) (fs' : FS) :
    Inv F P g { (crashAt F P cfg w picks k) with fs := fs' } :=
  inv_of_rc (wf_of_createDag hdag hs) _ (C05_rc_crash F P cfg w g marks hdag hs hrc picks k)

/-- **C05_no_redo_step** (the local form). Suppose the killed build completed the protocol of `spec` with SUCCESS — body and teardown went through
and every row of `spec` was committed (`hok`) — and whatever happened afterwards, before the kill and in the recovery build
before `spec`'s turn (`later`), left `spec`'s module, dependencies and products alone. Then a non-forced recovery build does
not execute `spec` again: its protocol raises before the body, the body log and the session are unchanged. (`hT`: the
neighbours of a task are nodes, not other tasks — the graph is bipartite.) -/
theorem C05_no_redo_step (F : BodyFn) (P : Project) (g : G) (cfg cfg' : Cfg) (s s' : Sess) (spec : TaskSpec)
    (hT : ∀ v ∈ neighbours g spec.id, isTaskV v = true → v = tv spec.id)
    (hr : (runPhases F P g cfg s spec).1 = .none)
    (hok : (updateStates P g (runPhases F P g cfg s spec).2.w spec.id (neighbours g spec.id)).2 = true)
    (later : List Step) (hav : ∀ st ∈ later, StepAvoids P g spec.id st)
    (hs' : s'.w = applySteps (protocol F P g cfg s spec).w later) (hforce : cfg'.force = false) :
    (protocol F P g cfg' s' spec).log = s'.log ∧ (runPhases F P g cfg' s' spec).2 = s' := by
  have hm : RowsMatch P g s'.w spec.id := by
    rw [hs']
    exact rowsMatch_frame P g spec.id hT later _ hav (rowsMatch_after_protocol F P g cfg s spec hr hok)
  exact ⟨protocol_rowsMatch_log F P g cfg' s' spec hforce hm, (runPhases_rowsMatch F P g cfg' s' spec hforce hm).1⟩

/-- **C05_no_redo.** A build is killed at an arbitrary point `j` of the protocol of `tstar`, after it had processed the tasks
`done`, each reported SUCCESS or SKIP_UNCHANGED (so their completion had been logged). Then a non-forced recovery build — any
schedule, any selection or failure limit, whatever else it executes, fails or skips — does not execute any task of `done`
again. -/
theorem C05_no_redo (F : BodyFn) (P : Project) (cfg cfg' : Cfg) (g : G) (marks marks' : List Nat)
    (hs : WFSpec P) (hdag : createDag P cfg = .ok (g, marks))
    (so0 : Sorter) (hso : Sorter.fromDag g isTaskV (prioFn P) = .ok so0)
    (w0 : World) (done : List Nat) (tstar : Nat) (specS : TaskSpec) (so1 soS : Sorter) (s1 sS : Sess)
    (hloop1 : buildLoop F P g cfg so0 { w := w0, skipMarks := marks } done = .ok (so1, s1))
    (hgood1 : ∀ rep ∈ s1.reports, GoodOutcome rep.2) (hcr1 : s1.crashed = false)
    (hpickS : buildLoop F P g cfg so1 s1 [tstar] = .ok (soS, sS)) (hfindS : Project.find? P tstar = some specS) (j : Nat)
    (picks2 : List Nat) (so3 : Sorter) (s3 : Sess)
    (hloop2 : buildLoop F P g cfg' so0
      { w := applySteps s1.w ((protocolSteps F P g cfg s1 specS).take j), skipMarks := marks' } picks2 = .ok (so3, s3))
    (hforce : cfg'.force = false) : ∀ t ∈ done, t ∉ s3.log := by
  obtain ⟨j', _, hj'⟩ := protocol_prefix_txn F P g cfg s1 specS j
  rw [hj'] at hloop2
  exact no_redo_each F P cfg cfg' g marks marks' hs hdag so0 hso w0 done tstar specS so1 soS s1 sS hloop1 hgood1 hcr1 hpickS
    hfindS j' picks2 so3 s3 hloop2 hforce

/-- **C05_unchanged_iff_rows** ("reports unchanged" is "all rows match"): the link between the outcome pytask shows and
`RowsMatch`, in both directions, for non-forced builds. -/
theorem C05_unchanged_rows (F : BodyFn) (P : Project) (g : G) (cfg : Cfg) (s : Sess) (t : TaskSpec)
    (h : (runPhases F P g cfg s t).1 = .skippedUnchanged) : RowsMatch P g s.w t.id :=
  (rowsMatch_of_skippedUnchanged F P g cfg s t h).1

/-- **C05_converge_step** (one step of convergence). In any world in which `Inv` holds — by `C05_rows_safe` that is every
world a kill can leave — a protocol of `spec` (any configuration) that is reported SUCCESS or SKIP_UNCHANGED leaves the
products of `spec` fresh: what its body produces from the contents its module and dependencies have at that moment. A task
that needed to run and did not complete cannot be reported unchanged with stale products; if it is reported SUCCESS it has been
executed. The chaining of these steps along the task order is `C05_converge_partial` below. -/
theorem C05_converge_step (F : BodyFn) (P : Project) (g : G) (cfg : Cfg) (s : Sess) (spec : TaskSpec)
    (hwf : WF P g) (hspec : spec ∈ P.tasks) (hinv : Inv F P g s.w)
    (hout : (runPhases F P g cfg s spec).1 = .none ∨ (runPhases F P g cfg s spec).1 = .skippedUnchanged) :
    Fresh F (protocol F P g cfg s spec).w spec := by
  have hfs : (protocol F P g cfg s spec).w.fs = (runPhases F P g cfg s spec).2.w.fs := by
    rw [← applySteps_protocol]
    unfold protocolStepsEach
    simp only []
    rw [applySteps_append, applySteps_phases]
    exact applySteps_onlyRows_fs (reportSteps_onlyRows P g cfg _ spec _) _
  rcases hout with h | h
  · exact fresh_of_fs_eq hfs
      (runPhases_none_fresh F P g cfg s spec (hwf.nodup spec hspec) (hwf.disj spec hspec) (hwf.honest spec hspec) h)
  · obtain ⟨hm, hs⟩ := rowsMatch_of_skippedUnchanged F P g cfg s spec h
    exact fresh_of_fs_eq (by rw [hfs, hs]) (hinv spec hspec hm)

/-- **C05_converge.** A build — ANY configuration, any legal schedule, tasks that fail, are skipped or succeed — is started in
a row-consistent world `w0` (every history of finished builds, earlier kills and file edits gives one: `C05_rc_init`,
`C05_rc_build`, `C05_rc_crash`) and killed after ANY number `k` of atomic updates. A recovery build of a project without skip
markers, without `-k`/`-m` selection and not a dry-run (forced or not, any failure limit) runs in the world the kill left, its
loop runs to its end and it returns **exit code 0**. Then
* every product on disk is its body's function of the module and dependency contents on disk — the from-scratch fixpoint;
* all rows of all tasks match the files;
* every later non-forced build, under any configuration, executes nothing and leaves the world as it is.
All scheduling facts are derived from `createDag`, `from_dag` and `C01_order` / `C01_once` (`Lemmas/CrashGraph.lean`); "exit 0 and
complete ⇒ every report is SUCCESS / SKIP_UNCHANGED and every task was processed" is `Lemmas/CrashExit.lean`. -/
theorem C05_converge (F : BodyFn) (P : Project) (cfg cfg' : Cfg) (g : G) (marks : List Nat)
    (hs : WFSpec P) (hns : NoSkips P) (hdag : createDag P cfg = .ok (g, marks))
    (so0 : Sorter) (hso : Sorter.fromDag g isTaskV (prioFn P) = .ok so0)
    -- the killed build
    (w0 : World) (hrc : RC F P g w0.db) (picks : List Nat) (k : Nat)
    -- the recovery build
    (hk : cfg'.selK = none) (hm : cfg'.selM = none) (hdry : cfg'.dry = false) (picks2 : List Nat) (r : Result)
    (hb : build F P cfg' (crashAt F P cfg w0 picks k) picks2 = .ok r)
    (hexit : r.exit = 0) (hcomplete : r.complete = true) :
    (∀ t ∈ P.tasks, Fresh F r.w t) ∧ (∀ t ∈ P.tasks, RowsMatch P g r.w t.id) ∧
    (∀ (cfg'' : Cfg) (picks3 : List Nat) (r' : Result), cfg''.force = false → build F P cfg'' r.w picks3 = .ok r' →
        r'.log = [] ∧ r'.w = r.w) := by
  have hrc1 := C05_rc_crash F P cfg w0 g marks hdag hs hrc picks k
  obtain ⟨marks', hdag'⟩ := createDag_cfg P cfg cfg' g marks hdag
  have hmarks : marks' = [] := by rw [createDag_marks P cfg' g marks' hdag', deselected_none P g cfg' hk hm]
  subst hmarks
  obtain ⟨so3, s3, hloop2, hw, _, hex, hco⟩ := build_ok_loop F P cfg' _ picks2 r g [] so0 hdag' hso hb
  rw [hex] at hexit
  obtain ⟨hcr, hnf⟩ := exit_zero hexit
  have hnofail : ∀ rep ∈ s3.reports, rep.2 ≠ .fail := by
    intro rep hrep hf
    have : s3.reports.any (fun r => r.2 == .fail) = true := List.any_eq_true.2 ⟨rep, hrep, by simp [hf]⟩
    rw [this] at hnf; cases hnf
  obtain ⟨hgood2, hstop⟩ := clean_loop F P g cfg' hdry hns hs.noPersist picks2 so0 _ so3 s3 ⟨rfl, rfl, rfl, rfl⟩
    (fun _ h => by cases h) hloop2 hnofail hcr
  have hinactive : so3.isActive = false := by
    rw [hco, hstop, hcr] at hcomplete
    simpa using hcomplete
  have hall := all_picked F hdag' so0 so3 _ s3 picks2 hso hloop2 hinactive
  obtain ⟨h1, h2, h3⟩ := converge_rc_loop F P g cfg' cfg marks hs hdag so0 hso _ hrc1 picks2 so3 s3 hloop2 hgood2 hcr hall
  rw [hw]
  refine ⟨h1, h2, ?_⟩
  intro cfg'' picks3 r' hforce hb'
  obtain ⟨marks'', hdag''⟩ := createDag_cfg P cfg cfg'' g marks hdag
  obtain ⟨so5, s5, hloop3, hw', hl', _, _⟩ := build_ok_loop F P cfg'' _ picks3 r' g marks'' so0 hdag'' hso hb'
  have := h3 cfg'' so0 so5 { w := s3.w, skipMarks := marks'' } s5 picks3 hforce rfl hloop3
  rw [hw', hl']
  exact ⟨this.1, this.2⟩

/-- **memo_garbage_ok.** Whatever bytes a killed writer (or anything else) left in `.pytask/file_hashes.json`: if they do not
parse, `pytask_post_parse` starts with the empty memo (`Generated.memoLoadSuppressed`: the whole load sits in
`suppress(Exception)`), never with an exception; the empty memo is coherent, and under a coherent memo the state of a file
computed through the memo is the hash of its current content — which is how `Engine.stateOf` models it. -/
theorem C05_memo_garbage_ok (parse : List UInt8 → Option Memo) (file : Option (List UInt8)) :
    (∃ m, loadMemo parse file = some m ∧ (m = [] ∨ ∃ b, file = some b ∧ parse b = some m)) ∧
    (∀ mtime content, MemoCoherent [] mtime content) ∧
    (∀ (m : Memo) (mtime content : Nat → Option Nat) (p t c : Nat), MemoCoherent m mtime content → mtime p = some t →
        content p = some c → stateVia m p t c = c) := by
  refine ⟨?_, ?_, ?_⟩
  · unfold loadMemo loadMemoWith
    cases file with
    | none => exact ⟨[], by simp [Generated.memoLoadSuppressed], Or.inl rfl⟩
    | some b =>
      cases hp : parse b with
      | none => exact ⟨[], by simp [Generated.memoLoadSuppressed, hp], Or.inl rfl⟩
      | some m => exact ⟨m, by simp [hp], Or.inr ⟨b, rfl, hp⟩⟩
  · intro mtime content p t h hl
    simp [lookup] at hl
  · intro m mtime content p t c hcoh hmt hc
    unfold stateVia
    cases hl : lookup m (p, t) with
    | none => rfl
    | some h =>
      have := hcoh p t h hl hmt
      rw [hc] at this
      exact (Option.some.inj this).symm

/-- **C05_startup_idempotent.** Whatever database file a build finds — none, a 0-byte file, a file with any subset of the tables
(in particular what a kill between two `CREATE TABLE`s of an earlier start-up left, `startupCrash`) — after its start-up every
declared table exists: `create_all` runs unconditionally (`Generated.createAllUnconditional`) and creates what is missing. So a
kill during the start-up of the very first build leaves nothing a later build does not repair, and the engine theorems above
(which assume the tables exist) apply to every build. -/
theorem C05_startup_idempotent (f : DbFile) : SchemaComplete Generated.dbTables (startup f) := by
  have hu : Generated.createAllUnconditional = true := rfl
  intro t ht
  unfold startup startupWith
  rw [hu]
  have key : ∀ h : List String, t ∈ createAll Generated.dbTables h := by
    intro h
    unfold createAll startupSteps
    by_cases hin : t ∈ h
    · exact List.mem_append_left _ hin
    · exact List.mem_append_right _ (List.mem_filter.2 ⟨ht, by simpa using hin⟩)
  cases f with
  | none => exact key []
  | some h => simpa using key h

/-- … in particular after a kill at any point `k` of an earlier start-up, from any earlier file state -/
theorem C05_startup_after_kill (f0 : DbFile) (k : Nat) :
    SchemaComplete Generated.dbTables (startup (startupCrash Generated.dbTables f0 k)) :=
  C05_startup_idempotent _

/-! ## Non-vacuity: a concrete two-task chain (`c05P`, data in `Lemmas/EngineCrash.lean`), killed at various points -/

example : createDag c05P {} = .ok (c05G, []) := by rfl

/-- the build has 5 atomic updates: two product writes and one transaction for task 0, one write and one transaction for task 1 -/
example : (buildSteps c05F c05P {} c05W [0, 1]).length = 5 := by decide
/-- killed after 2 of them: both products of task 0 are written, none of its rows; after 3: all four rows -/
example : (crashAt c05F c05P {} c05W [0, 1] 2).db.length = 0 ∧ (crashAt c05F c05P {} c05W [0, 1] 2).fs.length = 4 ∧
    (crashAt c05F c05P {} c05W [0, 1] 3).db.length = 4 := by decide
/-- `C05_rows_safe` and `C05_rc_crash` apply to these worlds -/
example : Inv c05F c05P c05G (crashAt c05F c05P {} c05W [0, 1] 2) :=
  C05_rows_safe c05F c05P {} c05W c05G [] (by rfl) c05_wfspec (C05_rc_init _ _ _) [0, 1] 2
example : RC c05F c05P c05G (crashAt c05F c05P {} c05W [0, 1] 3).db :=
  C05_rc_crash c05F c05P {} c05W c05G [] (by rfl) c05_wfspec (C05_rc_init _ _ _) [0, 1] 3
/-- the recovery build after a kill before the transaction of task 0 executes both tasks again, then nothing -/
example : (build c05F c05P {} (crashAt c05F c05P {} c05W [0, 1] 2) [0, 1]).toOption.map (·.log) = some [0, 1] := by decide
/-- killed after the transaction of task 0 (and the product write of task 1): task 0 is not executed again -/
example : (build c05F c05P {} (crashAt c05F c05P {} c05W [0, 1] 4) [0, 1]).toOption.map (·.log) = some [1] := by decide
/-- hypotheses of `C05_no_redo_step` on this project: the protocol of task 0 succeeds and commits all its rows -/
example : (runPhases c05F c05P c05G {} { w := c05W } c05T0).1 = .none ∧
    (updateStates c05P c05G (runPhases c05F c05P c05G {} { w := c05W } c05T0).2.w 0 (neighbours c05G 0)).2 = true := by decide

/-- `C05_no_redo` instantiated: task 0 completed, the build is killed after the product write of task 1 (before its transaction),
the recovery build processes 0 and 1: the hypotheses hold, and the theorem yields that task 0 is not executed again. -/
example : ∃ (so1 soS so3 : Sorter) (s1 sS s3 : Sess),
    buildLoop c05F c05P c05G {} c05So { w := c05W, skipMarks := [] } [0] = .ok (so1, s1) ∧
    buildLoop c05F c05P c05G {} so1 s1 [1] = .ok (soS, sS) ∧
    buildLoop c05F c05P c05G {} c05So
      { w := applySteps s1.w ((protocolSteps c05F c05P c05G {} s1 c05T1).take 1), skipMarks := [] } [0, 1] = .ok (so3, s3) ∧
    s3.log = [1] ∧ ∀ t ∈ [0], t ∉ s3.log := by
  refine ⟨_, _, _, _, _, _, rfl, rfl, rfl, by decide, ?_⟩
  exact C05_no_redo c05F c05P {} {} c05G [] [] c05_wfspec (by rfl) c05So (by rfl) c05W [0] 1 c05T1 _ _ _ _ rfl (by decide) rfl
    rfl rfl 1 [0, 1] _ _ rfl rfl

/-- `C05_converge` instantiated: killed after the product writes of task 0; the recovery `build` returns exit code 0 with a
complete loop — all hypotheses hold, the conclusion gives the from-scratch fixpoint of the recovered world. -/
example : ∃ r : Result,
    build c05F c05P {} (crashAt c05F c05P {} c05W [0, 1] 2) [0, 1] = .ok r ∧
    r.exit = 0 ∧ r.complete = true ∧ r.log = [0, 1] ∧ ∀ t ∈ c05P.tasks, Fresh c05F r.w t := by
  refine ⟨_, rfl, by decide, by decide, by decide, ?_⟩
  exact (C05_converge c05F c05P {} {} c05G [] c05_wfspec
    (by intro t ht; simp [c05P] at ht; rcases ht with rfl | rfl <;> exact ⟨rfl, rfl⟩) (by rfl) c05So (by rfl)
    c05W (C05_rc_init _ _ _) [0, 1] 2 rfl rfl rfl [0, 1] _ rfl (by decide) (by decide)).1

/-- the F50 scenario in the model of the repaired code (`f50P`: a task that writes whether its two inputs agree; both inputs
edited 0 → 1, product unchanged): wherever the rebuild is killed (0, 1 or 2 atomic updates) and the second input then put back,
the recovery build executes the task and writes "differ" (1) — `C05_edit_after_kill` applies -/
example : ∀ k ∈ [0, 1, 2], (build f50F f50P {} (applyStep (crashAt f50F f50P {} f50W [0] k) (.write 11 0)) [0]).toOption.map
    (fun r => (r.reports, r.log, lookup r.w.fs 20)) = some ([(0, .success)], [0], some 1) := by decide
example : Inv f50F f50P f50G (applyStep (crashAt f50F f50P {} f50W [0] 2) (.write 11 0)) :=
  C05_edit_after_kill f50F f50P {} f50W f50G [] [0] 2 11 0 (by rfl) f50_wfspec f50_rc (by decide)

/-- start-up: a first build killed after `CREATE TABLE state` (the first of the two statements) leaves a file with that table only;
the next start-up completes the schema — whereas "create the tables only together with the file" (`uncond = false`) would not -/
example : startupCrash Generated.dbTables none 1 = some ["state"] ∧
    startup (startupCrash Generated.dbTables none 1) = ["state", "runtime"] ∧
    startupWith false Generated.dbTables (startupCrash Generated.dbTables none 1) = ["state"] := by decide

/-- garbage in the memo file loads as the empty memo -/
example : loadMemo (fun _ => none) (some [0xff, 0xfe]) = some [] := by decide

end Pytask
