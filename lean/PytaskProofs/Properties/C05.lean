import PytaskProofs.Lemmas.EngineCrash
import PytaskProofs.Lemmas.EngineConverge
/-!
# C05 — abrupt termination never leaves state that hides outstanding work

Model: `PytaskModel/EngineCrash.lean` refines every build of `PytaskModel/Engine.lean` into the list of its atomic world
updates (one product write, one committed state row); a process killed at any instant leaves `crashAt … k` for some `k`.
Vocabulary (defined in `Lemmas/EngineCrash.lean`):
* `RowsMatch P g w t` — every neighbour of `t` exists and its row equals its state: exactly when pytask reports `t` unchanged;
* `Fresh F w t`      — the products of `t` on disk are what its body makes of the module and dependency contents on disk;
* `Inv F P g w`      — every task whose rows match is fresh (the C02 invariant): *no stale "unchanged"*;
* `RC F P g db`      — every *complete* row set in the database is one consistent snapshot (a property of the database alone,
                       so no file edit can break it; it holds for the empty database and after every finished build);
* `WF P g`           — unique task ids, the graph has the declared edges, no task consumes its own product, bodies that return
                       have written all their products, no `persist` marks (those record stale products on purpose, cf. C02).
-/
namespace Pytask
open Engine

/-- **applySteps_all.** Applying all atomic updates that the step model lists for a build gives exactly the world that
`Engine.build` computes: the step model refines the engine model, `crashAt k` for large `k` is the finished build and the
shorter prefixes are the worlds a kill can leave behind. -/
theorem C05_applySteps_all (F : BodyFn) (P : Project) (cfg : Cfg) (w : World) (picks : List Nat) (r : Result)
    (h : build F P cfg w picks = .ok r) : applySteps w (buildSteps F P cfg w picks) = r.w :=
  applySteps_build F P cfg w picks r h

/-- **C05_rows_safe** (`inv_crash`). Start any build — any configuration (forced, dry, selections, failure limit), any legal
schedule, bodies that succeed, raise early or raise after writing — in a world whose database is row-consistent, and kill it
after any number `k` of atomic updates: in the world that is left, every task whose rows all match the files has fresh
products. So the next build can report a task unchanged only if its products are what its body would produce now — torn row
sets (some rows of a task committed, the others not) and half-written product sets included. -/
theorem C05_rows_safe (F : BodyFn) (P : Project) (cfg : Cfg) (w : World) (g : G) (marks : List Nat)
    (hdag : createDag P cfg = .ok (g, marks)) (hwf : WF P g) (hrc : RC F P g w.db) (picks : List Nat) (k : Nat) :
    Inv F P g (crashAt F P cfg w picks k) := by
  unfold crashAt buildSteps
  simp only [hdag]
  cases hso : Sorter.fromDag g isTaskV (prioFn P) with
  | error e => simpa using inv_of_rc hwf w hrc
  | ok so => exact inv_loop_prefix hwf cfg picks so { w := w, skipMarks := marks } hrc k

/-- The hypothesis of `C05_rows_safe` holds initially … -/
theorem C05_rc_init (F : BodyFn) (P : Project) (g : G) : RC F P g [] := by
  intro t _ hall
  have := hall (tv t.id) (tv_mem_neighbours g t.id)
  simp [lookup] at this

/-- … and after every build that ran to its end with exit code 0 (and it does not mention the files, so arbitrary edits of
inputs, modules and products between builds keep it): every pre-crash history of finished builds and file edits leads to a
world to which `C05_rows_safe` applies. -/
theorem C05_rc_build (F : BodyFn) (P : Project) (cfg : Cfg) (w : World) (g : G) (marks : List Nat)
    (hdag : createDag P cfg = .ok (g, marks)) (hwf : WF P g) (hrc : RC F P g w.db) (picks : List Nat) (r : Result)
    (hb : build F P cfg w picks = .ok r) (hexit : r.exit = 0) : RC F P g r.w.db := by
  unfold build at hb
  simp only [hdag] at hb
  cases hso : Sorter.fromDag g isTaskV (prioFn P) with
  | error e => simp only [hso] at hb; cases hb; exact hrc
  | ok so =>
    simp only [hso] at hb
    cases hl : buildLoop F P g cfg so { w := w, skipMarks := marks } picks with
    | error e => simp only [hl] at hb; cases hb
    | ok res =>
      obtain ⟨so', s'⟩ := res
      simp only [hl] at hb
      cases hb
      rcases rc_loop hwf cfg picks so _ so' s' hrc hl with hcr | h
      · simp only [hcr, if_true] at hexit
        exact absurd hexit (by decide)
      · exact h

/-- **C05_no_redo.** Suppose the killed build completed the protocol of `spec` with SUCCESS — body and teardown went through
and every row of `spec` was committed (`hok`) — and whatever happened afterwards, before the kill and in the recovery build
before `spec`'s turn (`later`), left `spec`'s module, dependencies and products alone. Then a non-forced recovery build does
not execute `spec` again: its protocol raises before the body, the body log and the session are unchanged. (`hT`: the
neighbours of a task are nodes, not other tasks — the graph is bipartite.) -/
theorem C05_no_redo (F : BodyFn) (P : Project) (g : G) (cfg cfg' : Cfg) (s s' : Sess) (spec : TaskSpec)
    (hT : ∀ v ∈ neighbours g spec.id, isTaskV v = true → v = tv spec.id)
    (hr : (runPhases F P g cfg s spec).1 = .none)
    (hok : (updateStates P g (runPhases F P g cfg s spec).2.w spec.id (neighbours g spec.id)).2 = true)
    (later : List Step) (hav : ∀ st ∈ later, StepAvoids P g spec.id st)
    (hs' : s'.w = applySteps (protocol F P g cfg s spec).w later) (hforce : cfg'.force = false) :
    (protocol F P g cfg' s' spec).log = s'.log ∧ (runPhases F P g cfg' s' spec).2 = s' := by
  have hm : RowsMatch P g s'.w spec.id := by
    rw [hs']
    exact rowsMatch_frame P g spec.id hT later _ hav (rowsMatch_after_protocol F P g cfg s spec hr hok)
  exact ⟨protocol_rowsMatch_log F P g cfg' s' spec hforce hm, (runPhases_rowsMatch F P g cfg' s' spec hforce hm).1⟩

/-- **C05_unchanged_iff_rows** ("reports unchanged" is "all rows match"): the link between the outcome pytask shows and
`RowsMatch`, in both directions, for non-forced builds. -/
theorem C05_unchanged_rows (F : BodyFn) (P : Project) (g : G) (cfg : Cfg) (s : Sess) (t : TaskSpec)
    (h : (runPhases F P g cfg s t).1 = .skippedUnchanged) : RowsMatch P g s.w t.id :=
  (rowsMatch_of_skippedUnchanged F P g cfg s t h).1

/-- **C05_converge_step** (one step of convergence). In any world in which `Inv` holds — by `C05_rows_safe` that is every
world a kill can leave — a protocol of `spec` (any configuration) that is reported SUCCESS or SKIP_UNCHANGED leaves the
products of `spec` fresh: what its body produces from the contents its module and dependencies have at that moment. A task
that needed to run and did not complete cannot be reported unchanged with stale products; if it is reported SUCCESS it has been
executed. The chaining of these steps along the task order is `C05_converge_partial` below. -/
theorem C05_converge_step (F : BodyFn) (P : Project) (g : G) (cfg : Cfg) (s : Sess) (spec : TaskSpec)
    (hwf : WF P g) (hspec : spec ∈ P.tasks) (hinv : Inv F P g s.w)
    (hout : (runPhases F P g cfg s spec).1 = .none ∨ (runPhases F P g cfg s spec).1 = .skippedUnchanged) :
    Fresh F (protocol F P g cfg s spec).w spec := by
  have hfs : (protocol F P g cfg s spec).w.fs = (runPhases F P g cfg s spec).2.w.fs := by
    rw [← applySteps_protocol]
    unfold protocolSteps
    simp only []
    rw [applySteps_append, applySteps_phases]
    exact applySteps_onlyRows_fs (reportSteps_onlyRows P g cfg _ spec _) _
  rcases hout with h | h
  · exact fresh_of_fs_eq hfs
      (runPhases_none_fresh F P g cfg s spec (hwf.nodup spec hspec) (hwf.disj spec hspec) (hwf.honest spec hspec) h)
  · obtain ⟨hm, hs⟩ := rowsMatch_of_skippedUnchanged F P g cfg s spec h
    exact fresh_of_fs_eq (by rw [hfs, hs]) (hinv spec hspec hm)

/-- **C05_converge_partial.** A build is started in a row-consistent world (`hrc`; any pre-crash history of finished builds and
file edits, `C05_rc_init/_build`), processes the tasks `done` — each reported SUCCESS or SKIP_UNCHANGED — and is killed after
an arbitrary number `j` of the atomic updates of the next task `tstar` (in the middle of its product writes, between two of its
row commits, …). Then a recovery build (any configuration `cfg'`, any legal schedule `picks2`) runs in the world `w1` the kill
left, processes every task and reports SUCCESS or SKIP_UNCHANGED for each. Conclusion:
* every product on disk is its body's function of the module and dependency contents on disk — the from-scratch fixpoint;
* all rows of all tasks match, hence
* every later non-forced build executes nothing and changes nothing ("then stays quiet").

Hypotheses that are *facts about pytask proved elsewhere or left to be linked*, named so that the gap to the full statement is
explicit: `DataOrdered` / `FrameOrdered` / `hbip` (the schedule respects the data flow, the graph is bipartite with one producer
per product: consequences of `C01_order`, `createDag`'s product check and the shape of `_create_dag_from_tasks`, not derived
here from `createDag`); the reports of the recovery build being all SUCCESS / SKIP_UNCHANGED stands for "exit code 0, no skip
markers, no selection"; the tasks processed by the killed build *before* the kill all ended SUCCESS / SKIP_UNCHANGED (lifting
this to killed builds with failed or skipped tasks needs the failure containment `C04_contain`: a task whose body ran has no
failed or skipped producer). Everything else — torn row sets, half-written product sets, forced recovery, arbitrary `j` — is
covered. -/
theorem C05_converge_partial (F : BodyFn) (P : Project) (g : G) (cfg cfg' : Cfg)
    (hwf : WF P g) (hwf2 : WF2 P) (hbip : ∀ t, ∀ v ∈ neighbours g t, isTaskV v = true → v = tv t)
    -- the killed build
    (so0 so1 : Sorter) (s0 s1 : Sess) (hrc : RC F P g s0.w.db) (done : List Nat) (tstar : Nat) (specS : TaskSpec)
    (hloop1 : buildLoop F P g cfg so0 s0 done = .ok (so1, s1)) (hgood1 : ∀ rep ∈ s1.reports, GoodOutcome rep.2)
    (hfindS : Project.find? P tstar = some specS) (hord1 : DataOrdered P (fun _ => False) (done ++ [tstar]))
    (j : Nat) (w1 : World) (hw1 : w1 = applySteps s1.w ((protocolSteps F P g cfg s1 specS).take j))
    -- the recovery build
    (so2 so3 : Sorter) (s2 s3 : Sess) (hs2 : s2.w = w1) (picks2 : List Nat)
    (hloop2 : buildLoop F P g cfg' so2 s2 picks2 = .ok (so3, s3)) (hgood2 : ∀ rep ∈ s3.reports, GoodOutcome rep.2)
    (hcr : s3.crashed = false) (hall : ∀ t ∈ P.tasks, t.id ∈ picks2)
    (hord2 : DataOrdered P (fun _ => False) picks2) (hframe2 : FrameOrdered P g [] picks2) :
    (∀ t ∈ P.tasks, Fresh F s3.w t) ∧ (∀ t ∈ P.tasks, RowsMatch P g s3.w t.id) ∧
    (∀ (cfg'' : Cfg) (so4 so5 : Sorter) (s4 s5 : Sess) (picks : List Nat), cfg''.force = false → s4.w = s3.w →
        buildLoop F P g cfg'' so4 s4 picks = .ok (so5, s5) → s5.log = s4.log ∧ s5.w = s4.w) := by
  -- settled set after the completed part of the killed build
  have q1 := q_loop hwf hwf2 cfg done so0 s0 so1 s1 (fun _ => False) (Q.of_rc hrc) hloop1 hgood1
    (by
      intro pre t post hp spec hf u hu hd
      exact hord1 pre t (post ++ [tstar]) (by rw [hp]; simp) spec hf u hu hd)
  -- … and at the kill point inside the protocol of `tstar`
  have hprodS : ∀ u ∈ P.tasks, (∃ d ∈ specS.deps, d ∈ u.prods) → (False ∨ u.id ∈ done) :=
    fun u hu hd => hord1 done tstar [] rfl specS hfindS u hu hd
  obtain ⟨A1, hA1, q2⟩ := q_protocol_prefix hwf hwf2 cfg s1 specS (mem_of_find? hfindS) _ q1 hprodS j
  rw [← hw1, ← hs2] at q2
  -- the recovery build settles everything
  have q3 := q_loop hwf hwf2 cfg' picks2 so2 s2 so3 s3 A1 q2 hloop2 hgood2 (hord2.mono (fun _ h => h.elim))
  have hfresh := q3.allFresh (fun t ht => Or.inr (hall t ht))
  have hrows : ∀ t ∈ P.tasks, RowsMatch P g s3.w t.id := by
    have := rowsMatch_loop hwf hbip cfg' picks2 so2 s2 so3 s3 [] (fun _ h => by cases h) hloop2 hgood2 hcr hframe2
    intro t ht
    exact this t.id (by simpa using hall t ht)
  refine ⟨hfresh, hrows, ?_⟩
  intro cfg'' so4 so5 s4 s5 picks hforce hw4 hloop
  exact quiet_loop hwf cfg'' hforce picks so4 s4 so5 s5 (by rw [hw4]; exact hrows) hloop

/-! ### The limit: an edit between the kill and the recovery build (finding F20)

Read literally ("no later build …"), the property also covers builds that follow *edits made after the kill*. At that strength
it is **false of the current code**: a kill between two row commits of a task leaves a row set that mixes two snapshots, and a
later edit that puts one input back can make every row match although the product belongs to neither snapshot's inputs.
Witness (replayed on the real code, `findings/F20.json`): a task that writes whether its two inputs agree; both inputs are
edited from `0` to `1` (the product stays the same), the rebuild is killed after the first row commit, the second input is put
back to `0`: all four rows match, the task is reported unchanged, the product still says "agree". -/

/-- The statement at full strength: `Inv` also survives an edit of an input file made after the kill. -/
def C05_edit_after_kill_full : Prop :=
  ∀ (F : BodyFn) (P : Project) (cfg : Cfg) (w : World) (g : G) (marks : List Nat) (picks : List Nat) (k n c : Nat),
    createDag P cfg = .ok (g, marks) → WF P g → RC F P g w.db → (∀ t ∈ P.tasks, n ∉ t.prods) →
    Inv F P g (applyStep (crashAt F P cfg w picks k) (.write n c))

theorem C05_edit_after_kill_full_false : ¬ C05_edit_after_kill_full := by
  intro h
  have hinv := h f20F f20P {} f20W f20G [] [0] 2 11 0 (by rfl) f20_wf f20_rc (by decide)
  have hF := hinv f20T (by simp [f20P]) f20_rowsMatch (20, 0) (by decide)
  exact absurd hF (by decide)

/-- **C05_edit_after_kill_partial.** What is true with edits: if the kill did not cut a row set in two — the database left
behind is row-consistent, e.g. because the kill fell outside `update_states_in_database`, or because all rows of a task are
committed in one transaction (the repair proposed in `fixes/F20.diff`) — then `Inv` holds for *every* content of the files, so
no sequence of later edits can produce a stale "unchanged". -/
theorem C05_edit_after_kill_partial (F : BodyFn) (P : Project) (g : G) (hwf : WF P g) (w : World) (hrc : RC F P g w.db)
    (fs' : FS) : Inv F P g { w with fs := fs' } :=
  inv_of_rc hwf _ hrc

/-- **memo_garbage_ok.** Whatever bytes a killed writer (or anything else) left in `.pytask/file_hashes.json`: if they do not
parse, `pytask_post_parse` starts with the empty memo (`Generated.memoLoadSuppressed`: the whole load sits in
`suppress(Exception)`), never with an exception; the empty memo is coherent, and under a coherent memo the state of a file
computed through the memo is the hash of its current content — which is how `Engine.stateOf` models it. -/
theorem C05_memo_garbage_ok (parse : List UInt8 → Option Memo) (file : Option (List UInt8)) :
    (∃ m, loadMemo parse file = some m ∧ (m = [] ∨ ∃ b, file = some b ∧ parse b = some m)) ∧
    (∀ mtime content, MemoCoherent [] mtime content) ∧
    (∀ (m : Memo) (mtime content : Nat → Option Nat) (p t c : Nat), MemoCoherent m mtime content → mtime p = some t →
        content p = some c → stateVia m p t c = c) := by
  refine ⟨?_, ?_, ?_⟩
  · unfold loadMemo loadMemoWith
    cases file with
    | none => exact ⟨[], by simp [Generated.memoLoadSuppressed], Or.inl rfl⟩
    | some b =>
      cases hp : parse b with
      | none => exact ⟨[], by simp [Generated.memoLoadSuppressed, hp], Or.inl rfl⟩
      | some m => exact ⟨m, by simp [hp], Or.inr ⟨b, rfl, hp⟩⟩
  · intro mtime content p t h hl
    simp [lookup] at hl
  · intro m mtime content p t c hcoh hmt hc
    unfold stateVia
    cases hl : lookup m (p, t) with
    | none => rfl
    | some h =>
      have := hcoh p t h hl hmt
      rw [hc] at this
      exact (Option.some.inj this).symm

/-! ## Non-vacuity: a concrete two-task chain, killed in the middle of the row commits of its first task -/

example : createDag c05P {} = .ok (c05G, []) := by rfl

/-- the build has 10 atomic updates; after 4 of them both products of task 0 are written and two of its four rows committed -/
example : (buildSteps c05F c05P {} c05W [0, 1]).length = 10 := by decide
example : (crashAt c05F c05P {} c05W [0, 1] 4).db.length = 2 ∧ (crashAt c05F c05P {} c05W [0, 1] 4).fs.length = 4 := by decide
/-- `C05_rows_safe` applies to that torn world -/
example : Inv c05F c05P c05G (crashAt c05F c05P {} c05W [0, 1] 4) :=
  C05_rows_safe c05F c05P {} c05W c05G [] (by rfl) c05_wf (C05_rc_init _ _ _) [0, 1] 4
/-- the recovery build from the torn world executes both tasks again (task 0 did not complete), then nothing -/
example : (build c05F c05P {} (crashAt c05F c05P {} c05W [0, 1] 4) [0, 1]).toOption.map (·.log) = some [0, 1] := by decide
/-- killed after all rows of task 0 were committed (8 = 2 writes + 4 rows + task 1's write + 1 row): task 0 is not executed again -/
example : (build c05F c05P {} (crashAt c05F c05P {} c05W [0, 1] 8) [0, 1]).toOption.map (·.log) = some [1] := by decide
/-- hypotheses of `C05_no_redo` on this project: the protocol of task 0 succeeds and commits all its rows -/
example : (runPhases c05F c05P c05G {} { w := c05W } c05P.tasks.head!).1 = .none ∧
    (updateStates c05P c05G (runPhases c05F c05P c05G {} { w := c05W } c05P.tasks.head!).2.w 0 (neighbours c05G 0)).2 = true := by decide
/-- `C05_converge_partial` instantiated: the build is killed after 4 atomic updates (inside the row commits of task 0), the
recovery build processes 0 and 1 and reports SUCCESS for both — all its hypotheses hold on this project, and its conclusion gives
the from-scratch fixpoint for the recovered world. -/
example : ∃ (so3 : Sorter) (s3 : Sess),
    buildLoop c05F c05P c05G {} c05So { w := applySteps c05W ((protocolSteps c05F c05P c05G {} { w := c05W } c05T0).take 4) } [0, 1]
      = .ok (so3, s3) ∧ s3.reports = [(0, .success), (1, .success)] ∧ ∀ t ∈ c05P.tasks, Fresh c05F s3.w t := by
  refine ⟨_, _, rfl, by decide, ?_⟩
  exact (C05_converge_partial c05F c05P c05G {} {} c05_wf c05_wf2 c05_bip c05So c05So { w := c05W } { w := c05W }
    (C05_rc_init _ _ _) [] 0 c05T0 rfl (by intro rep h; cases h) rfl c05_ord1 4 _ rfl
    c05So _ { w := applySteps c05W ((protocolSteps c05F c05P c05G {} { w := c05W } c05T0).take 4) } _ rfl [0, 1] rfl
    (by decide) (by decide) (by intro t ht; simp [c05P] at ht; rcases ht with rfl | rfl <;> decide) c05_ord2 c05_frame2).1

/-- the F20 witness in the model: after the kill and the edit, the recovery build reports the task unchanged and leaves the
stale product (`0` = "agree") although the inputs now differ (`1`, `0`) -/
example : (build f20F f20P {} (applyStep (crashAt f20F f20P {} f20W [0] 2) (.write 11 0)) [0]).toOption.map
    (fun r => (r.reports, r.log, lookup r.w.fs 20)) = some ([(0, .skipUnchanged)], [], some 0) := by decide

/-- garbage in the memo file loads as the empty memo -/
example : loadMemo (fun _ => none) (some [0xff, 0xfe]) = some [] := by decide

end Pytask
