import PytaskProofs.Lemmas.EngineCrash
/-!
# C05 — abrupt termination never leaves state that hides outstanding work
-/
namespace Pytask
open Engine

/-- **applySteps_all.** Applying all atomic updates that the step model lists for a build gives exactly the world that
`Engine.build` computes: the step model is a refinement of the engine model, so `crashAt k` for `k ≥` the number of steps is
the world of the finished build and the prefixes are its intermediate worlds. -/
theorem C05_applySteps_all (F : BodyFn) (P : Project) (cfg : Cfg) (w : World) (picks : List Nat) (r : Result)
    (h : build F P cfg w picks = .ok r) : applySteps w (buildSteps F P cfg w picks) = r.w :=
  applySteps_build F P cfg w picks r h

end Pytask
