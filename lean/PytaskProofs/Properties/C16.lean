import PytaskProofs.Lemmas.Expr
/-!
# C16 — selection expressions for -k / -m / after follow Boolean semantics exactly

Property theorems only. The model is `PytaskModel/Expr.lean` (lexer, recursive-descent parser, evaluation, matchers of
`mark/expression.py` and `mark/__init__.py`); the reference grammar `GTop / GExpr / GAnd / GNot` (a left-recursive
context-free grammar written without reference to the parser's control flow) is at the top of
`PytaskProofs/Lemmas/Expr.lean`:

```
expression := ε (denotes False) | expr
expr       := expr 'or' and_expr   | and_expr          -- lowest precedence, left associative
and_expr   := and_expr 'and' not_expr | not_expr
not_expr   := 'not' not_expr | '(' expr ')' | ident    -- highest precedence
```

`isWord` (the Unicode class behind `\w`) and `lower` (`str.lower`) are parameters; the two facts about `\w` that some
lexer theorems need are explicit hypotheses (`WordSane`: word characters are neither blank nor parentheses; `KwWord`:
the letters of `or and not` are word characters).
-/
namespace Pytask.SelExpr

deriving instance DecidableEq for Except

/-! ## Parser = reference grammar -/

/-- **parse_sound.** Whatever tree `Expression.compile_` builds from a token list is a derivation of the reference
grammar: precedence `not > and > or`, left association and parentheses are exactly the documented ones. -/
theorem C16_parse_sound (ts : List Tok) (e : Ast) (h : parseToks false ts = .ok e) : GTop ts e :=
  (parseToks_ok_iff ts e).1 h

/-- **parse_complete.** Every token list the grammar derives is accepted, with that tree. -/
theorem C16_parse_complete (ts : List Tok) (e : Ast) (h : GTop ts e) : parseToks false ts = .ok e :=
  (parseToks_ok_iff ts e).2 h

/-- The grammar is unambiguous (a consequence of completeness: the parser is a function). -/
theorem C16_grammar_unambiguous (ts : List Tok) (e e' : Ast) (h : GTop ts e) (h' : GTop ts e') : e = e' :=
  h.unique h'

/-- A token list that the grammar does not derive is rejected with a `ParseError` positioned at one of its tokens
(or at the end). -/
theorem C16_parse_reject (ts : List Tok) (h : ¬ ∃ e, GTop ts e) :
    ∃ k, parseToks false ts = .error (.at k) ∧ k ≤ ts.length := by
  rcases parseToks_total false ts with ⟨e, he⟩ | hk
  · exact absurd ⟨e, C16_parse_sound ts e he⟩ h
  · exact hk

/-- String level: `compile_` succeeds exactly on the strings that lex completely and whose tokens the grammar derives. -/
theorem C16_compile_ok_iff (isWord : Char → Bool) (cs : List Char) (e : Ast) :
    compile isWord cs = .ok e ↔
      (lex isWord cs).stop.isBad = false ∧ GTop ((lex isWord cs).toks.map (·.1)) e := by
  simp only [compile]
  generalize (lex isWord cs).stop.isBad = bad
  cases bad
  · simp only [true_and]
    rw [← parseToks_ok_iff]
    cases hp : parseToks false ((lex isWord cs).toks.map (·.1)) with
    | ok e' => simp
    | error err => cases err <;> simp
  · have := parseToks_bad_ne_ok ((lex isWord cs).toks.map (·.1))
    cases hp : parseToks true ((lex isWord cs).toks.map (·.1)) with
    | ok e' => exact absurd hp (this e')
    | error err => cases err <;> simp

/-- End to end: evaluating a selection expression under a matcher `m` yields `b` exactly when the string lexes
completely, its tokens are derived by the reference grammar as some tree, and that tree has Boolean value `b`. -/
theorem C16_compileEval_iff (isWord : Char → Bool) (m : List Char → Bool) (cs : List Char) (b : Bool) :
    compileEval isWord m cs = .ok b ↔
      (lex isWord cs).stop.isBad = false ∧ ∃ e, GTop ((lex isWord cs).toks.map (·.1)) e ∧ eval m e = b := by
  unfold compileEval
  constructor
  · intro h
    cases hc : compile isWord cs with
    | error err => simp [hc, Except.map] at h
    | ok e =>
      simp only [hc, Except.map, Except.ok.injEq] at h
      obtain ⟨h1, h2⟩ := (C16_compile_ok_iff isWord cs e).1 hc
      exact ⟨h1, e, h2, h⟩
  · rintro ⟨h1, e, h2, h3⟩
    rw [(C16_compile_ok_iff isWord cs e).2 ⟨h1, h2⟩]
    simp [Except.map, h3]

/-- **parse_total.** For every string, `compile_` either returns a tree or raises `ParseError` with a column between
that of the first character and one past the end of the string (columns are positions plus
`Generated.exprErrorColOffset`, 1 in the current source); there is no third behaviour (in particular the model's fuel
never runs out). -/
theorem C16_parse_total (isWord : Char → Bool) (cs : List Char) :
    (∃ e, compile isWord cs = .ok e) ∨
    (∃ col, compile isWord cs = .error (.syntax col) ∧ Generated.exprErrorColOffset ≤ col ∧
      col ≤ cs.length + Generated.exprErrorColOffset) := by
  unfold compile
  rcases parseToks_total (lex isWord cs).stop.isBad ((lex isWord cs).toks.map (·.1)) with ⟨e, he⟩ | ⟨k, hk, _⟩
  · left; exact ⟨e, by simp [he]⟩
  · right; exact ⟨_, by simp only [hk], colAt_bounds isWord cs k⟩

/-! ## Evaluation -/

/-- **eval_bool.** `not`, `and`, `or` evaluate as the Boolean connectives; identifiers through the matcher; the empty
expression is false. -/
theorem C16_eval_bool (m : List Char → Bool) (a b : Ast) (s : List Char) :
    eval m (.not a) = !eval m a ∧ eval m (.and a b) = (eval m a && eval m b) ∧
    eval m (.or a b) = (eval m a || eval m b) ∧ eval m (.ident s) = m s ∧ eval m .false = false :=
  ⟨rfl, rfl, rfl, rfl, rfl⟩

/-- **empty_false.** The empty string and every string of blanks compile and evaluate to `False`. -/
theorem C16_empty_false (isWord : Char → Bool) (m : List Char → Bool) (cs : List Char)
    (h : ∀ c ∈ cs, isBlank c = true) : compileEval isWord m cs = .ok false := by
  have := lexGo_blanks isWord cs cs.length 0 [] h (by simp)
  simp only [List.append_nil, lexGo_nil] at this
  simp [compileEval, compile, lex, this, parseToks, Stop.isBad, eval, Except.map]

/-- **Precedence and association**, stated for arbitrary operands `x y z` of the highest-precedence kind (`not_expr`:
identifiers, negations, parenthesised expressions): `x or y and z` is `x or (y and z)`, `x and y or z` is
`(x and y) or z`, `not x and y` is `(not x) and y`, `not x or y` is `(not x) or y`, both binary operators associate to
the left, and parentheses override: `(x or y) and z`. -/
theorem C16_precedence (x y z : List Tok) (ex ey ez : Ast) (hx : GNot x ex) (hy : GNot y ey) (hz : GNot z ez) :
    parseToks false (x ++ .or :: (y ++ .and :: z)) = .ok (.or ex (.and ey ez)) ∧
    parseToks false ((x ++ .and :: y) ++ .or :: z) = .ok (.or (.and ex ey) ez) ∧
    parseToks false ((.not :: x) ++ .and :: y) = .ok (.and (.not ex) ey) ∧
    parseToks false ((.not :: x) ++ .or :: y) = .ok (.or (.not ex) ey) ∧
    parseToks false ((x ++ .or :: y) ++ .or :: z) = .ok (.or (.or ex ey) ez) ∧
    parseToks false ((x ++ .and :: y) ++ .and :: z) = .ok (.and (.and ex ey) ez) ∧
    parseToks false ((.lparen :: ((x ++ .or :: y) ++ [.rparen])) ++ .and :: z) = .ok (.and (.or ex ey) ez) := by
  refine ⟨?_, ?_, ?_, ?_, ?_, ?_, ?_⟩ <;> apply C16_parse_complete <;> apply GTop.expr
  · exact .or (.ofAnd (.ofNot hx)) (.and (.ofNot hy) hz)
  · exact .or (.ofAnd (.and (.ofNot hx) hy)) (.ofNot hz)
  · exact .ofAnd (.and (.ofNot (.not hx)) hy)
  · exact .or (.ofAnd (.ofNot (.not hx))) (.ofNot hy)
  · exact .or (.or (.ofAnd (.ofNot hx)) (.ofNot hy)) (.ofNot hz)
  · exact .ofAnd (.and (.and (.ofNot hx) hy) hz)
  · exact .ofAnd (.and (.ofNot (.paren (.or (.ofAnd (.ofNot hx)) (.ofNot hy)))) hz)

/-! ## Lexer -/

/-- **lex_roundtrip.** Write any token list as text — each token preceded by an arbitrary run of blanks (space / tab),
non-empty between two adjacent keyword/identifier tokens, any blanks at the end; identifiers being non-empty runs of
identifier characters that are not keywords. Lexing gives back exactly these tokens and reaches the end of the text.
In particular the result does not depend on how many blanks are inserted where. -/
theorem C16_lex_roundtrip (isWord : Char → Bool) (hw : WordSane isWord) (hk : KwWord isWord)
    (items : List (List Char × Tok)) (trail : List Char) (hok : ItemsOK isWord items)
    (htr : ∀ c ∈ trail, isBlank c = true) (hsep : SepOK items) :
    (lex isWord (render items trail)).toks.map (·.1) = items.map (·.2) ∧
    (lex isWord (render items trail)).stop = .eof (render items trail).length := by
  have := lexGo_render hw hk items trail (render items trail).length 0 hok htr hsep (Nat.le_refl _)
  simpa [lex] using this

/-- Consequence: two renderings of the same tokens (different blanks) compile to the same result. -/
theorem C16_blanks_irrelevant (isWord : Char → Bool) (hw : WordSane isWord) (hk : KwWord isWord)
    (items items' : List (List Char × Tok)) (trail trail' : List Char)
    (hok : ItemsOK isWord items) (hok' : ItemsOK isWord items')
    (htr : ∀ c ∈ trail, isBlank c = true) (htr' : ∀ c ∈ trail', isBlank c = true)
    (hsep : SepOK items) (hsep' : SepOK items') (hsame : items.map (·.2) = items'.map (·.2)) (e : Ast) :
    compile isWord (render items trail) = .ok e ↔ compile isWord (render items' trail') = .ok e := by
  obtain ⟨h1, h2⟩ := C16_lex_roundtrip isWord hw hk items trail hok htr hsep
  obtain ⟨h1', h2'⟩ := C16_lex_roundtrip isWord hw hk items' trail' hok' htr' hsep'
  rw [C16_compile_ok_iff, C16_compile_ok_iff, h1, h2, h1', h2', hsame]
  simp [Stop.isBad]

/-- **lex_keyword_whole.** A non-empty run of identifier characters is one token; it is a keyword only if the *whole*
run is `or`, `and` or `not` — `nota`, `or1`, `and-x`, `Not` are identifiers. -/
theorem C16_lex_keyword_whole (isWord : Char → Bool) (hw : WordSane isWord) (w : List Char) (hne : w ≠ [])
    (hall : ∀ c ∈ w, isIdentChar isWord c = true) :
    lex isWord w = ⟨[(classify w, 0)], .eof w.length⟩ ∧
    (classify w = .ident w ↔ w ≠ ['o', 'r'] ∧ w ≠ ['a', 'n', 'd'] ∧ w ≠ ['n', 'o', 't']) ∧
    classify ['o', 'r'] = .or ∧ classify ['a', 'n', 'd'] = .and ∧ classify ['n', 'o', 't'] = .not := by
  refine ⟨?_, classify_ident_iff w, classify_keywords⟩
  have := lexGo_word hw w [] w.length 0 hne hall (by simp) (by simp)
  simpa [lex, Lexed.push] using this

/-- **Identifier alphabet.** The identifier characters are exactly the word characters and `: + - . [ ] / \`. -/
theorem C16_alphabet (isWord : Char → Bool) (c : Char) :
    isIdentChar isWord c = true ↔ isWord c = true ∨ c ∈ [':', '+', '-', '.', '[', ']', '/', '\\'] := by
  unfold isIdentChar
  simp only [Generated.identHasWordClass, Generated.identExtraChars, Bool.true_and, Bool.or_eq_true,
    List.contains_eq_mem, decide_eq_true_eq, List.mem_cons, List.not_mem_nil, or_false]
  constructor <;> (intro h; rcases h with h | h)
  · exact .inl h
  · right; rcases h with h | h | h | h | h | h | h | h <;> simp [h]
  · exact .inl h
  · right; rcases h with h | h | h | h | h | h | h | h <;> simp [h]

/-- **lex_reject.** A character that is not a blank, not a parenthesis and not an identifier character stops the lexer
exactly there (when the text in front of it lexes): the error position is its index, the tokens are those in front of
it, and `compile_` raises `ParseError` at a column no further right than that character — never a result. -/
theorem C16_lex_reject (isWord : Char → Bool) (pre post : List Char) (c : Char) (hb : isBlank c = false)
    (hl : c ≠ Generated.exprLParen) (hr : c ≠ Generated.exprRParen) (hc : isIdentChar isWord c = false)
    (hpre : (lex isWord pre).stop.isBad = false) :
    lex isWord (pre ++ c :: post) = ⟨(lex isWord pre).toks, .bad pre.length⟩ ∧
    ∃ col, compile isWord (pre ++ c :: post) = .error (.syntax col) ∧ Generated.exprErrorColOffset ≤ col ∧
      col ≤ pre.length + Generated.exprErrorColOffset := by
  have hq : ∃ q, (lexGo isWord (pre ++ c :: post).length 0 pre).stop = .eof q := by
    rw [lexGo_fuel isWord _ pre.length 0 pre (by simp) (Nat.le_refl _)]
    unfold lex at hpre
    cases hs : (lexGo isWord pre.length 0 pre).stop with
    | eof q => exact ⟨q, rfl⟩
    | bad q => simp [hs, Stop.isBad] at hpre
  have hlex : lex isWord (pre ++ c :: post) = ⟨(lex isWord pre).toks, .bad pre.length⟩ := by
    have := lexGo_reject c post hb hl hr hc (pre ++ c :: post).length 0 pre (Nat.le_refl _) hq
    rw [lexGo_fuel isWord (pre ++ c :: post).length pre.length 0 pre (by simp) (Nat.le_refl _)] at this
    simpa [lex] using this
  refine ⟨hlex, ?_⟩
  rcases C16_parse_total isWord (pre ++ c :: post) with ⟨e, he⟩ | ⟨col, hcol, h1, _⟩
  · rw [C16_compile_ok_iff, hlex] at he; simp [Stop.isBad] at he
  · refine ⟨col, hcol, h1, ?_⟩
    -- the column is the position of a token of the prefix or of the bad character
    unfold compile at hcol
    rw [hlex] at hcol
    obtain ⟨hb1, _⟩ := lexGo_bounds isWord pre.length 0 pre (Nat.le_refl _)
    cases hp : parseToks (Stop.bad pre.length).isBad ((lex isWord pre).toks.map (·.1)) with
    | ok e => simp [hp] at hcol
    | error err =>
      cases err with
      | fuel => simp [hp] at hcol
      | «at» k =>
        simp only [hp, Except.error.injEq, CErr.syntax.injEq] at hcol
        subst hcol
        unfold Lexed.colAt
        simp only [Stop.pos]
        generalize Generated.exprErrorColOffset = off
        split
        · rename_i tk p rest heq
          have hmem : (tk, p) ∈ (lex isWord pre).toks := List.mem_of_mem_drop (by rw [heq]; simp)
          have := hb1 _ hmem
          simp at this
          omega
        · omega

/-! ## Matchers and selections -/

/-- **kw_semantics.** `-k` / `after`: an identifier matches a task iff, after lower-casing both sides, it is a contiguous
substring of the task id, of a name in the task function's `__dict__`, or of a marker name. -/
theorem C16_kw_semantics (lower : List Char → List Char) (t : TaskInfo) (sub : List Char) :
    kwMatch lower (kwNames t) sub = true ↔
      ∃ n, (n = t.name ∨ n ∈ t.attrs ∨ n ∈ t.markers) ∧ lower sub <:+: lower n := by
  unfold kwMatch kwNames
  simp only [List.any_eq_true, isInfixB_iff, List.mem_cons, List.mem_append]

/-- Case-insensitivity: identifiers with the same lower-casing match the same tasks. -/
theorem C16_kw_case_insensitive (lower : List Char → List Char) (t : TaskInfo) (sub sub' : List Char)
    (h : lower sub = lower sub') : kwMatch lower (kwNames t) sub = kwMatch lower (kwNames t) sub' := by
  unfold kwMatch; rw [h]

/-- **mark_semantics.** `-m`: an identifier matches iff it is exactly the name of one of the task's markers. -/
theorem C16_mark_semantics (t : TaskInfo) (name : List Char) : markMatch t.markers name = true ↔ name ∈ t.markers := by
  unfold markMatch; simp

/-- `select_by_keyword`: no expression → no selection; a malformed expression → error; otherwise exactly the tasks whose
`KeywordMatcher` satisfies the compiled expression under Boolean evaluation. -/
theorem C16_select_keyword (isWord : Char → Bool) (lower : List Char → List Char) (expr : List Char)
    (tasks : List TaskInfo) :
    (expr = [] → selectByKeyword isWord lower expr tasks = .ok none) ∧
    (expr ≠ [] → ∀ err, compile isWord expr = .error err → selectByKeyword isWord lower expr tasks = .error err) ∧
    (expr ≠ [] → ∀ a, compile isWord expr = .ok a → ∃ sel, selectByKeyword isWord lower expr tasks = .ok (some sel) ∧
      ∀ i, i ∈ sel ↔ ∃ t, tasks[i]? = some t ∧ eval (kwMatch lower (kwNames t)) a = true) := by
  unfold selectByKeyword
  refine ⟨fun h => by simp [h], fun h err he => by simp [h, he], fun h a ha => ?_⟩
  exact ⟨_, by simp [h, ha], fun i => mem_selectIdx _ _ i⟩

/-- `select_by_mark`, likewise with `MarkMatcher`. -/
theorem C16_select_mark (isWord : Char → Bool) (expr : List Char) (tasks : List TaskInfo) :
    (expr = [] → selectByMark isWord expr tasks = .ok none) ∧
    (expr ≠ [] → ∀ err, compile isWord expr = .error err → selectByMark isWord expr tasks = .error err) ∧
    (expr ≠ [] → ∀ a, compile isWord expr = .ok a → ∃ sel, selectByMark isWord expr tasks = .ok (some sel) ∧
      ∀ i, i ∈ sel ↔ ∃ t, tasks[i]? = some t ∧ eval (markMatch t.markers) a = true) := by
  unfold selectByMark
  refine ⟨fun h => by simp [h], fun h err he => by simp [h, he], fun h a ha => ?_⟩
  exact ⟨_, by simp [h, ha], fun i => mem_selectIdx _ _ i⟩

/-- `select_by_after_keyword` (`@task(after="<expr>")`): a malformed expression is an error; otherwise the tasks whose
`KeywordMatcher` satisfies the expression (none for the empty string). -/
theorem C16_select_after (isWord : Char → Bool) (lower : List Char → List Char) (expr : List Char)
    (tasks : List TaskInfo) :
    (∀ err, compile isWord expr = .error err → selectByAfter isWord lower expr tasks = .error err) ∧
    (∀ a, compile isWord expr = .ok a → ∃ sel, selectByAfter isWord lower expr tasks = .ok sel ∧
      ∀ i, i ∈ sel ↔ expr ≠ [] ∧ ∃ t, tasks[i]? = some t ∧ eval (kwMatch lower (kwNames t)) a = true) := by
  unfold selectByAfter
  refine ⟨fun err he => by simp [he], fun a ha => ?_⟩
  simp only [ha]
  refine ⟨_, rfl, fun i => ?_⟩
  rw [mem_selectIdx]
  cases expr <;> simp

/-- **-k / -m at project level.** With well-formed (or absent = empty) expressions, the tasks that
`select_tasks_by_marks_and_expressions` leaves selected are exactly those for which every GIVEN expression is true:
`{t | (no -k ∨ eval k t) ∧ (no -m ∨ eval m t)}`. -/
theorem C16_select_project (isWord : Char → Bool) (lower : List Char → List Char) (kexpr mexpr : List Char)
    (tasks : List TaskInfo) (ak am : Ast) (hk : kexpr = [] ∨ compile isWord kexpr = .ok ak)
    (hm : mexpr = [] ∨ compile isWord mexpr = .ok am) :
    ∃ res, selectProject isWord lower kexpr mexpr tasks = .ok res ∧
      ∀ i, i ∈ res ↔ ∃ t, tasks[i]? = some t ∧ (kexpr = [] ∨ eval (kwMatch lower (kwNames t)) ak = true) ∧
        (mexpr = [] ∨ eval (markMatch t.markers) am = true) := by
  obtain ⟨k0, k1, k2⟩ := C16_select_keyword isWord lower kexpr tasks
  obtain ⟨m0, m1, m2⟩ := C16_select_mark isWord mexpr tasks
  have hkk : ∃ rk, selectByKeyword isWord lower kexpr tasks = .ok rk ∧ ∀ i t, tasks[i]? = some t →
      (keptBy rk i = true ↔ (kexpr = [] ∨ eval (kwMatch lower (kwNames t)) ak = true)) := by
    by_cases he : kexpr = []
    · exact ⟨none, k0 he, fun i t _ => by simp [keptBy, he]⟩
    · have hc := hk.resolve_left he
      obtain ⟨sel, hs, hmem⟩ := k2 he ak hc
      refine ⟨some sel, hs, fun i t ht => ?_⟩
      simp only [keptBy, List.contains_iff_mem, hmem, ht, Option.some.injEq, exists_eq_left', he, false_or]
  have hmm : ∃ rm, selectByMark isWord mexpr tasks = .ok rm ∧ ∀ i t, tasks[i]? = some t →
      (keptBy rm i = true ↔ (mexpr = [] ∨ eval (markMatch t.markers) am = true)) := by
    by_cases he : mexpr = []
    · exact ⟨none, m0 he, fun i t _ => by simp [keptBy, he]⟩
    · have hc := hm.resolve_left he
      obtain ⟨sel, hs, hmem⟩ := m2 he am hc
      refine ⟨some sel, hs, fun i t ht => ?_⟩
      simp only [keptBy, List.contains_iff_mem, hmem, ht, Option.some.injEq, exists_eq_left', he, false_or]
  obtain ⟨rk, hrk, hkept⟩ := hkk
  obtain ⟨rm, hrm, hmept⟩ := hmm
  refine ⟨(List.range tasks.length).filter (fun i => keptBy rk i && keptBy rm i), by simp only [selectProject, hrk, hrm], fun i => ?_⟩
  simp only [List.mem_filter, List.mem_range, Bool.and_eq_true]
  constructor
  · rintro ⟨hi, h1, h2⟩
    have ht : tasks[i]? = some tasks[i] := List.getElem?_eq_getElem hi
    exact ⟨tasks[i], ht, (hkept i _ ht).1 h1, (hmept i _ ht).1 h2⟩
  · rintro ⟨t, ht, h1, h2⟩
    have hi : i < tasks.length := by
      rcases Nat.lt_or_ge i tasks.length with h | h
      · exact h
      · rw [List.getElem?_eq_none h] at ht; cases ht
    exact ⟨hi, (hkept i t ht).2 h1, (hmept i t ht).2 h2⟩

/-- **The empty selection deselects everything.** A given `-k` expression that is false for every collected task leaves
no task selected (it is not treated like an absent option), whatever `-m` says; likewise for `-m`. -/
theorem C16_select_project_empty (isWord : Char → Bool) (lower : List Char → List Char) (kexpr mexpr : List Char)
    (tasks : List TaskInfo) (ak am : Ast) (hk : kexpr = [] ∨ compile isWord kexpr = .ok ak)
    (hm : mexpr = [] ∨ compile isWord mexpr = .ok am)
    (hnone : (kexpr ≠ [] ∧ ∀ t ∈ tasks, eval (kwMatch lower (kwNames t)) ak = false) ∨
             (mexpr ≠ [] ∧ ∀ t ∈ tasks, eval (markMatch t.markers) am = false)) :
    selectProject isWord lower kexpr mexpr tasks = .ok [] := by
  obtain ⟨res, hres, hmem⟩ := C16_select_project isWord lower kexpr mexpr tasks ak am hk hm
  rw [hres]
  congr 1
  apply List.eq_nil_iff_forall_not_mem.2
  intro i hi
  obtain ⟨t, ht, h1, h2⟩ := (hmem i).1 hi
  have htm : t ∈ tasks := List.mem_of_getElem? ht
  rcases hnone with ⟨hne, hall⟩ | ⟨hne, hall⟩
  · have := h1.resolve_left hne; simp [hall t htm] at this
  · have := h2.resolve_left hne; simp [hall t htm] at this

/-- **Tasks that come into existence later** (children of a task generator) are judged by the same formulas when the
selection is applied to the grown task list: the verdict on the earlier tasks does not change, and a new task stays
selected iff every given expression is true for it (`C16_select_project` on `tasks ++ new`). -/
theorem C16_select_project_grow (isWord : Char → Bool) (lower : List Char → List Char) (kexpr mexpr : List Char)
    (tasks new : List TaskInfo) (ak am : Ast) (hk : kexpr = [] ∨ compile isWord kexpr = .ok ak)
    (hm : mexpr = [] ∨ compile isWord mexpr = .ok am) :
    ∃ res res', selectProject isWord lower kexpr mexpr tasks = .ok res ∧
      selectProject isWord lower kexpr mexpr (tasks ++ new) = .ok res' ∧
      (∀ i, i < tasks.length → (i ∈ res' ↔ i ∈ res)) ∧
      (∀ j t, new[j]? = some t → (tasks.length + j ∈ res' ↔
        (kexpr = [] ∨ eval (kwMatch lower (kwNames t)) ak = true) ∧ (mexpr = [] ∨ eval (markMatch t.markers) am = true))) := by
  obtain ⟨res, hres, hmem⟩ := C16_select_project isWord lower kexpr mexpr tasks ak am hk hm
  obtain ⟨res', hres', hmem'⟩ := C16_select_project isWord lower kexpr mexpr (tasks ++ new) ak am hk hm
  refine ⟨res, res', hres, hres', fun i hi => ?_, fun j t hj => ?_⟩
  · rw [hmem, hmem', List.getElem?_append_left hi]
  · rw [hmem', List.getElem?_append_right (Nat.le_add_right _ _), Nat.add_sub_cancel_left, hj]
    simp

/-- **after, per project.** `_modify_dag` visits the tasks in some order; whatever that order and whatever `after` strings
the *other* tasks carry, a task without string gets no after-predecessor and a task `i` with string `e` gets exactly
`afterPredsOf … i e`: the tasks whose `KeywordMatcher` satisfies the formula `e` denotes, minus `i` itself. The result
lists the tasks in the order visited. -/
theorem C16_after_per_task (isWord : Char → Bool) (lower : List Char → List Char) (tasks : List TaskInfo)
    (afters : Nat → Option (List Char)) (order : List Nat) (res : List (Nat × List Nat))
    (h : modifyDagAfter isWord lower tasks afters order = .ok res) :
    res.map (·.1) = order ∧
    ∀ p ∈ res, match afters p.1 with
      | none => p.2 = []
      | some e => afterPredsOf isWord lower tasks p.1 e = .ok p.2 := by
  induction order generalizing res with
  | nil => simp [modifyDagAfter] at h; subst h; simp
  | cons i rest ih =>
    rw [modifyDagAfter] at h
    cases hstep : afterStep isWord lower tasks afters i with
    | error e => simp [hstep] at h
    | ok ps =>
      simp only [hstep] at h
      cases hr : modifyDagAfter isWord lower tasks afters rest with
      | error e => simp [hr] at h
      | ok r =>
        simp only [hr, Except.ok.injEq] at h
        subst h
        obtain ⟨h1, h2⟩ := ih r hr
        refine ⟨by simp [h1], ?_⟩
        intro p hp
        simp only [List.mem_cons] at hp
        rcases hp with rfl | hp
        · cases ha : afters i with
          | none => simp only [afterStep, ha, Except.ok.injEq] at hstep ⊢; exact hstep.symm
          | some e => simp only [afterStep, ha] at hstep ⊢; exact hstep
        · exact h2 p hp

/-- Which tasks these are: `j` is an after-predecessor of `i` iff `j ≠ i`, the string is not empty, and task `j`'s id /
function attributes / marker names satisfy the formula (case-insensitive substring semantics of `-k`). -/
theorem C16_after_preds_iff (isWord : Char → Bool) (lower : List Char → List Char) (tasks : List TaskInfo) (i : Nat)
    (expr : List Char) (a : Ast) (hc : compile isWord expr = .ok a) :
    ∃ ps, afterPredsOf isWord lower tasks i expr = .ok ps ∧
      ∀ j, j ∈ ps ↔ j ≠ i ∧ expr ≠ [] ∧ ∃ t, tasks[j]? = some t ∧ eval (kwMatch lower (kwNames t)) a = true := by
  obtain ⟨sel, hsel, hmem⟩ := (C16_select_after isWord lower expr tasks).2 a hc
  refine ⟨sel.filter (fun j => j != i), by simp [afterPredsOf, hsel, Except.map], fun j => ?_⟩
  simp only [List.mem_filter, hmem, bne_iff_ne, ne_eq]
  constructor
  · rintro ⟨⟨h1, h2⟩, h3⟩; exact ⟨h3, h1, h2⟩
  · rintro ⟨h3, h1, h2⟩; exact ⟨⟨h1, h2⟩, h3⟩

/-! ## Non-vacuity: the hypotheses are satisfiable and the model computes the documented results -/

/-- `asciiWord` (ASCII letters, digits, underscore) satisfies the two assumptions on `\w`. -/
example : WordSane asciiWord ∧ KwWord asciiWord := ⟨asciiWord_sane, asciiWord_kw⟩

/-! Each fact is a separate `example` (a failing `decide +kernel` on a long conjunction is very slow to report). -/
/-- `a or b and not c` is `a or (b and (not c))`. -/
example : compile asciiWord "a or b and not c".toList
    = .ok (.or (.ident ['a']) (.and (.ident ['b']) (.not (.ident ['c'])))) := by decide +kernel
/-- Parentheses override precedence; `nota` is an identifier. -/
example : compile asciiWord "(a or b) and nota".toList
    = .ok (.and (.or (.ident ['a']) (.ident ['b'])) (.ident ['n', 'o', 't', 'a'])) := by decide +kernel
/-- The whole identifier alphabet in use. -/
example : compile asciiWord "a:b[1]/c\\d or x-y".toList
    = .ok (.or (.ident "a:b[1]/c\\d".toList) (.ident "x-y".toList)) := by decide +kernel
/-- A `$` is rejected at its column. -/
example : compile asciiWord "a $".toList = .error (.syntax (2 + Generated.exprErrorColOffset)) := by decide +kernel
/-- The lexer is lazy: the syntax error in front of the `$` is reported first. -/
example : compile asciiWord "a b $".toList = .error (.syntax (2 + Generated.exprErrorColOffset)) := by decide +kernel
/-- A missing operand is rejected at the end of the input. -/
example : compile asciiWord "a and".toList = .error (.syntax (5 + Generated.exprErrorColOffset)) := by decide +kernel
example : compile asciiWord ")".toList = .error (.syntax (0 + Generated.exprErrorColOffset)) := by decide +kernel
/-- Blanks only: false. -/
example : compileEval asciiWord (fun _ => true) " \t".toList = .ok false := by decide +kernel

/-- A rendering with irregular blanks (hypotheses of `C16_lex_roundtrip` on concrete data). -/
def exItems : List (List Char × Tok) :=
  [([' '], .not), (['\t', ' '], .lparen), ([], .ident ['a']), ([' '], .or), ([' '], .ident ['o', 'r', '1']), ([], .rparen)]
example : SepOK exItems ∧ render exItems [' '] = " not\t (a or or1) ".toList ∧
    (lex asciiWord (render exItems [' '])).toks.map (·.1) = exItems.map (·.2) :=
  ⟨by simp [SepOK, exItems, Tok.wordy], by decide +kernel, by decide +kernel⟩
example : ItemsOK asciiWord exItems := by
  intro it hit
  simp only [exItems, List.mem_cons, List.not_mem_nil, or_false] at hit
  rcases hit with rfl | rfl | rfl | rfl | rfl | rfl <;> refine ⟨by decide, ?_⟩ <;> first | trivial | (refine ⟨by simp, by decide, by decide⟩)

/-- The grammar derives `not a or b and c` as `(not a) or (b and c)` (a non-trivial derivation exists). -/
example : GTop [.not, .ident ['a'], .or, .ident ['b'], .and, .ident ['c']]
    (.or (.not (.ident ['a'])) (.and (.ident ['b']) (.ident ['c']))) :=
  .expr (.or (l := [.not, .ident ['a']]) (.ofAnd (.ofNot (.not (.ident _)))) (.and (l := [.ident ['b']]) (.ofNot (.ident _)) (.ident _)))

/-- Matchers on a concrete task: `-k` is a case-insensitive substring test over id, attributes and markers, `-m` is exact. -/
def exLower (s : List Char) : List Char := s.map Char.toLower
def exTask : TaskInfo :=
  { name := "src/task_Data.py::task_Prepare".toList, attrs := ["Custom".toList], markers := ["slow".toList] }
example : kwMatch exLower (kwNames exTask) "PREP".toList = true := by decide +kernel
example : kwMatch exLower (kwNames exTask) "custom".toList = true := by decide +kernel
example : kwMatch exLower (kwNames exTask) "SLO".toList = true := by decide +kernel
example : kwMatch exLower (kwNames exTask) "fit".toList = false := by decide +kernel
example : markMatch exTask.markers "slow".toList = true ∧ markMatch exTask.markers "slo".toList = false ∧
    markMatch exTask.markers "Slow".toList = false := by decide +kernel
/-- A selection: `-k "prep and not slow"` on two tasks selects the second only; `-m slow` the first. -/
def exTask2 : TaskInfo := { name := "task_prepare_fast".toList, attrs := [], markers := [] }
example : selectByKeyword asciiWord exLower "prep and not slow".toList [exTask, exTask2] = .ok (some [1]) := by
  decide +kernel
example : selectByMark asciiWord "slow".toList [exTask, exTask2] = .ok (some [0]) := by decide +kernel
example : selectByAfter asciiWord exLower "PREPARE".toList [exTask, exTask2] = .ok [0, 1] := by decide +kernel

/-- `-k delta` on tasks alpha / beta / gamma selects nothing; `-k "alpha and beta"` nothing; `-m slow` exactly the marked one;
without options everything stays. -/
def exProj : List TaskInfo :=
  [{ name := "task_alpha".toList, attrs := [], markers := [] }, { name := "task_beta".toList, attrs := [], markers := ["slow".toList] },
   { name := "task_gamma".toList, attrs := [], markers := [] }]
example : selectProject asciiWord exLower "delta".toList [] exProj = .ok [] := by decide +kernel
example : selectProject asciiWord exLower "alpha and beta".toList [] exProj = .ok [] := by decide +kernel
example : selectProject asciiWord exLower "alpha or beta".toList "slow".toList exProj = .ok [1] := by decide +kernel
example : selectProject asciiWord exLower [] [] exProj = .ok [0, 1, 2] := by decide +kernel

/-- Three tasks, two of them sharing the string `prep`, one of these matching it itself: the later declarer still has to
follow the earlier, self-matching one — in whatever order the tasks are visited. -/
def exAfterTasks : List TaskInfo :=
  [{ name := "task_prep_a".toList, attrs := [], markers := [] }, { name := "task_prep_b".toList, attrs := [], markers := [] },
   { name := "task_summary".toList, attrs := [], markers := [] }]
def exAfters (i : Nat) : Option (List Char) := if i = 0 then none else some "prep".toList
example : modifyDagAfter asciiWord exLower exAfterTasks exAfters [0, 1, 2] = .ok [(0, []), (1, [0]), (2, [0, 1])] := by
  decide +kernel
example : modifyDagAfter asciiWord exLower exAfterTasks exAfters [2, 1, 0] = .ok [(2, [0, 1]), (1, [0]), (0, [])] := by
  decide +kernel

end Pytask.SelExpr
