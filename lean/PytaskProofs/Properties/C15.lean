import PytaskProofs.Lemmas.Capture
/-!
# C15 — a finished build leaves the calling process as it found it

Property theorems only (model M10, `PytaskModel/Capture.lean`; `runBuild` is one `pytask.build()`, `release` is
the caller dropping the session and running `gc.collect()`). Since commit 124aca8 (`capture.pytask_unconfigure` stops
the capture manager, `database.pytask_unconfigure` disposes the engine; finding F6, fixed) the statements about the
standard streams and the open descriptors hold at full strength. The full-strength statement about consecutive builds
is still **false of the current code** (finding F7): it is kept as `def … _full : Prop`, refuted with concrete
witnesses, and the strongest true weakening is proved. What the model cannot exhibit: GC timing beyond "unreachable file objects are closed by `release`",
descriptor budgets of imported libraries, `pdb` interaction (see `ASSUMPTIONS` in `harness/props/c15.py`).
-/
namespace Pytask.Capture

/-- a process with three distinct files on descriptors 0, 1, 2 -/
private def w0 : W := { os := { files := [[], [], []], fdt := [some 0, some 1, some 2] } }
private def ios1 : List TaskIO :=
  [⟨7, [("pytask_execute_task_setup", []), ("pytask_execute_task", [⟨.pyOut, [104]⟩]), ("pytask_execute_task_teardown", [])], []⟩]
private theorem w0_std : StdW w0 :=
  ⟨⟨⟨0, by decide⟩, ⟨1, by decide⟩, ⟨2, by decide⟩⟩, rfl, rfl, rfl⟩

/-- **C15_streams_full** — the property at full strength, for every capture method, every task list and every
initial process state with descriptors 0-2 open and the interpreter's own `sys.stdout` / `sys.stderr`: when a build
that passed configuration returns, *every* descriptor refers to what it referred to before (in particular 0, 1, 2),
`sys.stdin` / `sys.stdout` / `sys.stderr` are the same objects, the number of open descriptors is the same, and no
assertion of `capture.py` failed. -/
theorem C15_streams_full (cfg : Cfg) (st0 : St) (mods : List ModSpec) (ios : List TaskIO)
    (hcf : cfg.configFails = false) (hw : StdW st0.w) :
    (∀ j, (runBuild cfg mods ios st0).w.os.fd j = st0.w.os.fd j) ∧
    (runBuild cfg mods ios st0).w.py.stdin = st0.w.py.stdin ∧
    (runBuild cfg mods ios st0).w.py.stdout = st0.w.py.stdout ∧
    (runBuild cfg mods ios st0).w.py.stderr = st0.w.py.stderr ∧
    (runBuild cfg mods ios st0).w.os.count = st0.w.os.count ∧
    (runBuild cfg mods ios st0).w.fault = false ∧
    (runBuild cfg mods ios st0).cm = some ⟨cfg.method, none⟩ ∧
    (runBuild cfg mods ios st0).w.py.dbFd = none := by
  obtain ⟨r, a, _, _, _, d, _⟩ := build_restores cfg st0 mods ios hcf hw
  exact ⟨r.fd, r.stdin, r.stdout, r.stderr, r.count, r.nofault, a, d⟩

/-- **C15_noleak** (replaces `C15_leak_now` of the code before 124aca8). (a) Per build, from any state: the number
of open descriptors after a build equals the number before — also for builds whose configuration fails. (b) By
induction over any sequence of builds in one process (any mix of capture methods, projects, task lists, failing
configurations): after `k` builds the descriptor table, the number of open descriptors, the three `sys.std*` objects,
`warnings.filters`, `pdb.set_trace` and `PytaskPDB._saved` are what they were before the first build, and the state is
again one the theorems apply to. -/
theorem C15_noleak_build (cfg : Cfg) (st0 : St) (mods : List ModSpec) (ios : List TaskIO) (hw : StdW st0.w) :
    (runBuild cfg mods ios st0).w.os.count = st0.w.os.count := by
  have := builds_restore [⟨cfg, mods, ios⟩] st0 hw
  exact this.count

theorem C15_noleak (bs : List BuildArgs) (st0 : St) (hw : StdW st0.w) :
    (runBuilds bs st0).w.os.count = st0.w.os.count ∧
    (∀ j, (runBuilds bs st0).w.os.fd j = st0.w.os.fd j) ∧
    (runBuilds bs st0).w.py.stdin = st0.w.py.stdin ∧
    (runBuilds bs st0).w.py.stdout = st0.w.py.stdout ∧
    (runBuilds bs st0).w.py.stderr = st0.w.py.stderr ∧
    (runBuilds bs st0).w.py.filters = st0.w.py.filters ∧
    (runBuilds bs st0).w.py.setTrace = st0.w.py.setTrace ∧
    (runBuilds bs st0).w.py.pdbSaved = st0.w.py.pdbSaved ∧
    StdW (runBuilds bs st0).w := by
  have r := builds_restore bs st0 hw
  exact ⟨r.count, r.fd, r.stdin, r.stdout, r.stderr, r.filters, r.setTrace, r.pdbSaved, r.std hw⟩

/-- **C15_release.** Nothing is left for the garbage collector that matters: the descriptors a later `gc.collect()`
may close are those of objects that were already unreachable before the build (`garbage` of the initial state) plus
the engine and capture manager of the *previous* build, which hold no descriptor any more once that build went through
`pytask_unconfigure`; so if the process starts clean, `release` changes no descriptor. -/
theorem C15_release (cfg : Cfg) (st0 : St) (mods : List ModSpec) (ios : List TaskIO)
    (hm : cfg.method = .fd) (hcf : cfg.configFails = false) (hw : StdW st0.w)
    (hg : st0.w.py.garbage = []) (hdb : st0.w.py.dbFd = none) (hcm : (st0.cm.map CM.owned).getD [] = []) :
    (release cfg (runBuild cfg mods ios st0)).w.os = (runBuild cfg mods ios st0).w.os := by
  obtain ⟨_, _, _, _, _, _, _, _, _, _, _, _, _, _, _, _, g, _⟩ := build_fd cfg st0 mods ios hm hcf hw
  simp [release, step, g, hg, hdb, hcm]

/-- **C15_misc.** On every path that passed configuration, whatever the method and whatever the tasks did (they
may add warning filters inside their `catch_warnings` block): `warnings.filters`, `pdb.set_trace` and
`PytaskPDB._saved` are as before the call; the `ExecutionReport` / `Traceback` class variables are back at their
defaults; `TASKS_WITH_PROVISIONAL_NODES` and `COLLECTED_TASKS` are empty. -/
theorem C15_misc (cfg : Cfg) (st0 : St) (mods : List ModSpec) (ios : List TaskIO)
    (hcf : cfg.configFails = false) (hw : StdW st0.w) :
    (runBuild cfg mods ios st0).w.py.filters = st0.w.py.filters ∧
    (runBuild cfg mods ios st0).w.py.setTrace = st0.w.py.setTrace ∧
    (runBuild cfg mods ios st0).w.py.pdbSaved = st0.w.py.pdbSaved ∧
    (runBuild cfg mods ios st0).w.py.reportVars = 0 ∧
    (runBuild cfg mods ios st0).w.py.provisional = [] ∧
    (runBuild cfg mods ios st0).w.py.collected = [] := by
  obtain ⟨r, _, a, b, c, _, _⟩ := build_restores cfg st0 mods ios hcf hw
  exact ⟨r.filters, r.setTrace, r.pdbSaved, a, b, c⟩

/-- **C15_config_failure.** A build whose configuration fails touches nothing the property names. If it fails before any
`pytask_post_parse` ran (invalid option) the whole process state is unchanged; if it fails in `create_database`
(`database.pytask_post_parse`, e.g. a corrupt database file) only the implementations pluggy calls *before* it have run —
with the hook order read from the source these do not include `capture`, so no capturing was started; the only trace is
the `ExecutionReport` / `Traceback` class variables set by `logging.pytask_post_parse` (no `pytask_unconfigure` follows). -/
theorem C15_config_failure (cfg : Cfg) (st0 : St) (mods : List ModSpec) (ios : List TaskIO)
    (hcf : cfg.configFails = true) :
    (∃ r, (runBuild cfg mods ios st0).w = { st0.w with py := { st0.w.py with reportVars := r } }) ∧
    (runBuild cfg mods ios st0).cm = st0.cm ∧
    (cfg.failsInDatabase = false → (runBuild cfg mods ios st0).w = st0.w) :=
  runBuild_configFails cfg st0 mods ios hcf

/-- **C15_samebuilds_full** — the property at full strength: the `k`-th build of a process collects the same
tasks, with the same collection verdict, as a build in a fresh process. -/
def C15_samebuilds_full : Prop := ∀ (mods : List ModSpec) (k : Nat), collectedAt mods k = collectedAt mods 0

/-- **F7 witnesses.** (a) a module with one `@task`-decorated function (5) and one `task_`-prefixed function (6):
the second build collects only 6 — the module object is served from `sys.modules`, its body (and the decorator's
registration) does not run again, and `COLLECTED_TASKS` was cleared. (b) a module whose body raises: the first
build fails collection, the second one silently collects the half-initialised module. -/
theorem C15_samebuilds_full_false : ¬ C15_samebuilds_full := by
  intro h
  have := h [⟨1, [5], [6], false⟩] 1
  revert this
  decide +kernel

theorem C15_samebuilds_full_false_import_error :
    collectedAt [⟨4, [], [1], true⟩] 0 = ([], true) ∧ collectedAt [⟨4, [], [1], true⟩] 1 = ([(4, 1)], false) := by
  decide +kernel

/-- **C15_samebuilds_partial.** For projects that declare their tasks by name prefix only (no `@task`) and whose
modules import without error, every build of the process collects exactly what a fresh process collects. -/
theorem C15_samebuilds_partial (mods : List ModSpec) (h : ∀ m ∈ mods, m.decorated = [] ∧ m.fails = false) (k : Nat) :
    collectedAt mods k = collectedAt mods 0 := by
  have key : ∀ k, (pyAfter mods k).collected = [] := by
    intro k; cases k <;> rfl
  unfold collectedAt
  rw [(collectAll_plain mods h _ (key k)).1, (collectAll_plain mods h _ (key 0)).1]

/-- `COLLECTED_TASKS` is empty after any sequence of builds that started with it empty -/
private theorem builds_collected (bs : List BuildArgs) (st0 : St) (hw : StdW st0.w) (hc : st0.w.py.collected = []) :
    (runBuilds bs st0).w.py.collected = [] ∧ StdW (runBuilds bs st0).w := by
  induction bs generalizing st0 with
  | nil => exact ⟨hc, hw⟩
  | cons b bs ih =>
    have h1 : (runBuild b.cfg b.mods b.ios st0).w.py.collected = [] ∧ StdW (runBuild b.cfg b.mods b.ios st0).w := by
      have hr := builds_restore [b] st0 hw
      refine ⟨?_, hr.std hw⟩
      cases hcf : b.cfg.configFails
      · exact (build_restores b.cfg st0 b.mods b.ios hcf hw).2.2.2.2.1
      · obtain ⟨r, e⟩ := (runBuild_configFails b.cfg st0 b.mods b.ios hcf).1
        rw [e]; exact hc
    exact ih _ h1.2 h1.1

/-- **C15_samebuilds_seq** — consecutive builds, as far as the capture model can speak about outcomes. For a project outside
the F7 class (tasks declared by name prefix only, every module imports) a build that follows ANY sequence of earlier builds in
the process — other projects, any capture methods, dry runs, failing configurations, failing collections — collects exactly
the tasks, with the same collection verdict, that the same build collects in any other process state, e.g. a fresh process.
(Since b7e10b4, F30, the marks of a collected task are a fresh copy per build. The per-task *outcomes* — skipped, would be
executed, selected by `-k` / `-m`, failed — are inputs of this model (`TaskIO`), not computed by it: their equality with
fresh-process builds is checked by the C15 campaign's oracle only, see `oracle_only` in evidence/C15.json.) -/
theorem C15_samebuilds_seq (mods : List ModSpec) (h : ∀ m ∈ mods, m.decorated = [] ∧ m.fails = false)
    (bs : List BuildArgs) (st0 fresh0 : St) (hw : StdW st0.w) (hwf : StdW fresh0.w)
    (hc : st0.w.py.collected = []) (hcf : fresh0.w.py.collected = [])
    (cfg : Cfg) (ios : List TaskIO) (hcfg : cfg.configFails = false) :
    (runBuild cfg mods ios (runBuilds bs st0)).tasks = (runBuild cfg mods ios fresh0).tasks ∧
    (runBuild cfg mods ios (runBuilds bs st0)).collectFailed = (runBuild cfg mods ios fresh0).collectFailed ∧
    (runBuild cfg mods ios fresh0).tasks = mods.flatMap (fun m => m.plain.map (fun f => (m.id, f))) ∧
    (runBuild cfg mods ios fresh0).collectFailed = false := by
  obtain ⟨hc', hw'⟩ := builds_collected bs st0 hw hc
  obtain ⟨_, _, _, _, _, _, P, p1, _, p3, p4⟩ := build_restores cfg (runBuilds bs st0) mods ios hcfg hw'
  obtain ⟨_, _, _, _, _, _, Q, q1, _, q3, q4⟩ := build_restores cfg fresh0 mods ios hcfg hwf
  have eP := (collectAll_plain mods h P (by rw [p1, hc'])).1
  have eQ := (collectAll_plain mods h Q (by rw [q1, hcf])).1
  rw [p3, p4, q3, q4, eP, eQ]
  exact ⟨rfl, rfl, rfl, rfl⟩

/-! ## Non-vacuity -/

example : StdW w0 := w0_std

/-- three consecutive `capture=fd` builds with an executed task: 3 open descriptors before, 3 after each build, fd 0
still on file 0, `sys.stdin` the original object (before 124aca8: 3 → 10 → 13 → 16, fd 0 on `/dev/null`) -/
example :
    let b := fun st => release { method := .fd } (runBuild { method := .fd } [] ios1 st)
    (b { w := w0 }).w.os.count = 3 ∧ (b (b { w := w0 })).w.os.count = 3 ∧ (b (b (b { w := w0 }))).w.os.count = 3 ∧
    (b { w := w0 }).w.os.fd 0 = some 0 ∧ (b { w := w0 }).w.py.stdin = .orig 0 ∧
    (runBuild { method := .fd } [] ios1 { w := w0 }).secs = [⟨7, "call", false, [104]⟩] := by decide +kernel

/-- a mixed sequence (fd, sys, failing configuration, tee-sys, no) as an instance of `C15_noleak` -/
example :
    (runBuilds [⟨{ method := .fd }, [], ios1⟩, ⟨{ method := .sys }, [], ios1⟩, ⟨{ method := .fd, configFails := true }, [], []⟩, ⟨{ method := .sys, configFails := true, failsInDatabase := true }, [], []⟩,
                ⟨{ method := .teeSys }, [], ios1⟩, ⟨{ method := .no }, [], ios1⟩] { w := w0 }).w.os.count = 3 := by decide +kernel

/-- `C15_samebuilds_seq` on a concrete process: after an fd-mode build of another project (with an `@task` function and a
failing import) and a failing configuration, the two-module project collects what a fresh process collects -/
example :
    (runBuild { method := .sys } [⟨1, [], [1, 2], false⟩, ⟨2, [], [3], false⟩] []
      (runBuilds [⟨{ method := .fd }, [⟨9, [5], [6], false⟩, ⟨4, [], [1], true⟩], ios1⟩, ⟨{ configFails := true }, [], []⟩] { w := w0 })).tasks
      = [(1, 1), (1, 2), (2, 3)] := by decide +kernel

/-- the hypothesis of `C15_samebuilds_partial` on a two-module project, and its conclusion for the 3rd build -/
example : collectedAt [⟨1, [], [1, 2], false⟩, ⟨2, [], [3], false⟩] 2 = ([(1, 1), (1, 2), (2, 3)], false) := by decide +kernel

end Pytask.Capture
