import PytaskProofs.Lemmas.Capture
/-!
# C15 — a finished build leaves the calling process as it found it

Property theorems only (model M10, `PytaskModel/Capture.lean`; `runBuild` is one `pytask.build()`, `release` is
the caller dropping the session and running `gc.collect()`). The full-strength statements about the standard
streams / open descriptors and about consecutive builds are **false of the current code** (findings F6 and F7):
they are kept as `def … _full : Prop`, refuted with concrete witnesses, and the strongest true weakenings are
proved. What the model cannot exhibit: GC timing beyond "unreachable file objects are closed by `release`",
descriptor budgets of imported libraries, `pdb` interaction (see `ASSUMPTIONS` in `harness/props/c15.py`).
-/
namespace Pytask.Capture

/-- **C15_streams_full** — the property at full strength: whatever the capture method, after a build that
passed configuration (and after the caller released the session) descriptors 0-2 refer to the same files, the three
`sys.std*` objects are the same objects, and no more descriptors are open than before. -/
def C15_streams_full : Prop :=
  ∀ (cfg : Cfg) (st0 : St) (mods : List ModSpec) (ios : List TaskIO),
    cfg.configFails = false → StdW st0.w → st0.w.py.garbage = [] →
    (∀ j, j < 3 → (release cfg (runBuild cfg mods ios st0)).w.os.fd j = st0.w.os.fd j) ∧
    (release cfg (runBuild cfg mods ios st0)).w.py.stdin = st0.w.py.stdin ∧
    (release cfg (runBuild cfg mods ios st0)).w.py.stdout = st0.w.py.stdout ∧
    (release cfg (runBuild cfg mods ios st0)).w.py.stderr = st0.w.py.stderr ∧
    (release cfg (runBuild cfg mods ios st0)).w.os.count = st0.w.os.count

/-- a process with three distinct files on descriptors 0, 1, 2 -/
private def w0 : W := { os := { files := [[], [], []], fdt := [some 0, some 1, some 2] } }
private def ios1 : List TaskIO :=
  [⟨7, [("pytask_execute_task_setup", []), ("pytask_execute_task", [⟨.pyOut, [104]⟩]), ("pytask_execute_task_teardown", [])], []⟩]
private theorem w0_std : StdW w0 :=
  ⟨⟨⟨0, by decide, by decide⟩, ⟨1, by decide, by decide⟩, ⟨2, by decide, by decide⟩⟩, rfl, rfl, rfl⟩

/-- **F6 witness.** One `capture=fd` build with one executed task: afterwards descriptor 0 refers to the
`/dev/null` file opened by `FDCapture(0)` (file 4) instead of file 0 — nothing in `pytask_unconfigure` stops the
capture manager, and `suspend(in_=False)` never restores stdin. -/
theorem C15_streams_full_false : ¬ C15_streams_full := by
  intro h
  have := (h { method := .fd } { w := w0 } [] ios1 rfl w0_std rfl).1 0 (by decide)
  revert this
  decide +kernel

/-- **C15_streams_partial.** What does hold, for every capture method, when `build()` returns: descriptors 1 and
2 refer to the files they referred to before and `sys.stdout` / `sys.stderr` are the interpreter's own objects
again, no assertion of `capture.py` failed; and with `capture=no` or `tee-sys` also descriptor 0 and `sys.stdin`
are untouched. -/
theorem C15_streams_partial (cfg : Cfg) (st0 : St) (mods : List ModSpec) (ios : List TaskIO)
    (hcf : cfg.configFails = false) (hw : StdW st0.w) :
    (runBuild cfg mods ios st0).w.os.fd 1 = st0.w.os.fd 1 ∧
    (runBuild cfg mods ios st0).w.os.fd 2 = st0.w.os.fd 2 ∧
    (runBuild cfg mods ios st0).w.py.stdout = st0.w.py.stdout ∧
    (runBuild cfg mods ios st0).w.py.stderr = st0.w.py.stderr ∧
    (runBuild cfg mods ios st0).w.fault = false ∧
    ((cfg.method = .no ∨ cfg.method = .teeSys) →
      (runBuild cfg mods ios st0).w.os.fd 0 = st0.w.os.fd 0 ∧ (runBuild cfg mods ios st0).w.py.stdin = st0.w.py.stdin) := by
  cases hm : cfg.method
  · obtain ⟨p, ins, r, _, h1, h2, _⟩ := build_fd cfg st0 mods ios hm hcf hw
    exact ⟨by rw [r.fd1, h1], by rw [r.fd2, h2], by rw [r.sout, hw.sout], by rw [r.serr, hw.serr], r.nofault,
      fun h => by rcases h with h | h <;> cases h⟩
  · obtain ⟨p, ins, r, _, h1, h2, _⟩ := build_sys cfg st0 mods ios false (by simp [hm]) hcf hw
    exact ⟨by rw [r.fd1, h1], by rw [r.fd2, h2], by rw [r.sout, hw.sout], by rw [r.serr, hw.serr], r.nofault,
      fun h => by rcases h with h | h <;> cases h⟩
  · obtain ⟨t1, t2, r, h1, h2, _, _, _, h7, h8, _⟩ := build_no cfg st0 mods ios hm hcf hw
    exact ⟨by rw [r.fd1, h1], by rw [r.fd2, h2], by rw [r.sout, hw.sout], by rw [r.serr, hw.serr], r.nofault,
      fun _ => ⟨h7 0 (by omega), h8⟩⟩
  · obtain ⟨p, ins, r, _, h1, h2, _, _, _, h7, h8, _⟩ := build_sys cfg st0 mods ios true (by simp [hm]) hcf hw
    exact ⟨by rw [r.fd1, h1], by rw [r.fd2, h2], by rw [r.sout, hw.sout], by rw [r.serr, hw.serr], r.nofault,
      fun _ => ⟨h7 0 (by omega), h8 rfl⟩⟩

/-- **C15_leak_now** — the finding as a theorem about the current code. Every `capture=fd` build that passes
configuration returns with exactly 7 more open descriptors than it was entered with (3 saved duplicates of 0-2,
3 temporary files, the database); after the caller has released the session at least 3 of them are still open,
whatever the previous builds of the process left behind — the garbage collector can only close the descriptors
of the *previous* build's capture manager and engine. -/
theorem C15_leak_now (cfg : Cfg) (st0 : St) (mods : List ModSpec) (ios : List TaskIO)
    (hm : cfg.method = .fd) (hcf : cfg.configFails = false) (hw : StdW st0.w) (hg : st0.w.py.garbage = []) :
    (runBuild cfg mods ios st0).w.os.count = st0.w.os.count + 7 ∧
    st0.w.os.count + 3 ≤ (release cfg (runBuild cfg mods ios st0)).w.os.count := by
  obtain ⟨p, ins, r, _, _, _, _, _, _, _, hc, _, _, _, _, _, _, hgar⟩ := build_fd cfg st0 mods ios hm hcf hw
  refine ⟨hc, ?_⟩
  have h1 := count_closeAll (runBuild cfg mods ios st0).w.py.garbage (runBuild cfg mods ios st0).w.os
  have h2 : (runBuild cfg mods ios st0).w.py.garbage.length ≤ 4 := by
    rw [hgar, hg]
    have := owned_cm_le st0.cm
    cases st0.w.py.dbFd <;> simp <;> omega
  show _ ≤ (List.foldl (fun o i => o.close i) (runBuild cfg mods ios st0).w.os (runBuild cfg mods ios st0).w.py.garbage).count
  omega

/-- **C15_misc.** On every path that passed configuration, whatever the method and whatever the tasks did (they
may add warning filters inside their `catch_warnings` block): `warnings.filters`, `pdb.set_trace` and
`PytaskPDB._saved` are as before the call; the `ExecutionReport` / `Traceback` class variables are back at their
defaults; `TASKS_WITH_PROVISIONAL_NODES` and `COLLECTED_TASKS` are empty. -/
theorem C15_misc (cfg : Cfg) (st0 : St) (mods : List ModSpec) (ios : List TaskIO)
    (hcf : cfg.configFails = false) (hw : StdW st0.w) :
    (runBuild cfg mods ios st0).w.py.filters = st0.w.py.filters ∧
    (runBuild cfg mods ios st0).w.py.setTrace = st0.w.py.setTrace ∧
    (runBuild cfg mods ios st0).w.py.pdbSaved = st0.w.py.pdbSaved ∧
    (runBuild cfg mods ios st0).w.py.reportVars = 0 ∧
    (runBuild cfg mods ios st0).w.py.provisional = [] ∧
    (runBuild cfg mods ios st0).w.py.collected = [] := by
  cases hm : cfg.method
  · obtain ⟨p, ins, _, _, _, _, _, _, _, _, _, a, b, c, d, e, f, _⟩ := build_fd cfg st0 mods ios hm hcf hw
    exact ⟨a, b, c, d, e, f⟩
  · obtain ⟨p, ins, _, _, _, _, _, _, _, _, _, a, b, c, d, e, f⟩ := build_sys cfg st0 mods ios false (by simp [hm]) hcf hw
    exact ⟨a, b, c, d, e, f⟩
  · obtain ⟨t1, t2, _, _, _, _, _, _, _, _, a, b, c, d, e, f⟩ := build_no cfg st0 mods ios hm hcf hw
    exact ⟨a, b, c, d, e, f⟩
  · obtain ⟨p, ins, _, _, _, _, _, _, _, _, _, a, b, c, d, e, f⟩ := build_sys cfg st0 mods ios true (by simp [hm]) hcf hw
    exact ⟨a, b, c, d, e, f⟩

/-- **C15_config_failure.** A build whose configuration fails before any `pytask_post_parse` ran (the only
configuration failures the campaign generates) touches nothing: the whole process state is unchanged. -/
theorem C15_config_failure (cfg : Cfg) (st0 : St) (mods : List ModSpec) (ios : List TaskIO)
    (hcf : cfg.configFails = true) : (runBuild cfg mods ios st0).w = st0.w ∧ (runBuild cfg mods ios st0).cm = st0.cm := by
  simp [runBuild, buildOps, hcf, runOps]

/-- **C15_samebuilds_full** — the property at full strength: the `k`-th build of a process collects the same
tasks, with the same collection verdict, as a build in a fresh process. -/
def C15_samebuilds_full : Prop := ∀ (mods : List ModSpec) (k : Nat), collectedAt mods k = collectedAt mods 0

/-- **F7 witnesses.** (a) a module with one `@task`-decorated function (5) and one `task_`-prefixed function (6):
the second build collects only 6 — the module object is served from `sys.modules`, its body (and the decorator's
registration) does not run again, and `COLLECTED_TASKS` was cleared. (b) a module whose body raises: the first
build fails collection, the second one silently collects the half-initialised module. -/
theorem C15_samebuilds_full_false : ¬ C15_samebuilds_full := by
  intro h
  have := h [⟨1, [5], [6], false⟩] 1
  revert this
  decide +kernel

theorem C15_samebuilds_full_false_import_error :
    collectedAt [⟨4, [], [1], true⟩] 0 = ([], true) ∧ collectedAt [⟨4, [], [1], true⟩] 1 = ([(4, 1)], false) := by
  decide +kernel

/-- **C15_samebuilds_partial.** For projects that declare their tasks by name prefix only (no `@task`) and whose
modules import without error, every build of the process collects exactly what a fresh process collects. -/
theorem C15_samebuilds_partial (mods : List ModSpec) (h : ∀ m ∈ mods, m.decorated = [] ∧ m.fails = false) (k : Nat) :
    collectedAt mods k = collectedAt mods 0 := by
  have key : ∀ k, (pyAfter mods k).collected = [] := by
    intro k; cases k <;> rfl
  unfold collectedAt
  rw [(collectAll_plain mods h _ (key k)).1, (collectAll_plain mods h _ (key 0)).1]

/-! ## Non-vacuity -/

example : StdW w0 := w0_std

/-- three consecutive `capture=fd` builds: 3 → 10 → 13 → 16 open descriptors (after release), as observed on the
real code (4 → 11 → 14 → 17 with one extra descriptor held by the harness) -/
example :
    let b := fun st => release { method := .fd } (runBuild { method := .fd } [] ios1 st)
    (b { w := w0 }).w.os.count = 10 ∧ (b (b { w := w0 })).w.os.count = 13 ∧ (b (b (b { w := w0 }))).w.os.count = 16 ∧
    (b { w := w0 }).w.py.stdin = .dontRead 1 := by decide +kernel

/-- `capture=sys`: descriptors untouched, but `sys.stdin` stays a `DontReadFromInput` -/
example : (runBuild { method := .sys } [] ios1 { w := w0 }).w.os.fd 0 = some 0
    ∧ (runBuild { method := .sys } [] ios1 { w := w0 }).w.py.stdin = .dontRead 0 := by decide +kernel

/-- the hypothesis of `C15_samebuilds_partial` on a two-module project, and its conclusion for the 3rd build -/
example : collectedAt [⟨1, [], [1, 2], false⟩, ⟨2, [], [3], false⟩] 2 = ([(1, 1), (1, 2), (2, 3)], false) := by decide +kernel

end Pytask.Capture
