import PytaskProofs.Lemmas.EngineProtocol
/-!
# C02 — an incremental build leaves what a from-scratch build would leave

Model: M6 (`PytaskModel/Engine.lean`). A file's *state* is its content id (sha256 collision freedom
is trusted). Edits are therefore *honest* by construction (a content change is a state change; the
`(path, mtime)` memo of `hash_path`, finding F4, is the subject of C12) and dependency sets are
static (directory patterns, finding F11, are the subject of C18).
-/
namespace Pytask
open Engine

/-- **C02_equiv** (the "equivalently" clause). A protocol reports `SKIP_UNCHANGED` for `t` only if
the build is not forced and, at `t`'s setup, every tracked neighbour (dependency, product of an
`after` target, the task's module, product) exists, has a recorded row, and its current content
equals that row: never "unchanged" while something differs from what was recorded or was never
recorded. -/
theorem C02_equiv (F : BodyFn) (P : Project) (g : G) (cfg : Cfg) (s : Sess) (t : TaskSpec)
    (h : (t.id, Outcome.skipUnchanged) ∈ (protocol F P g cfg s t).reports)
    (hnew : (t.id, Outcome.skipUnchanged) ∉ s.reports) :
    cfg.force = false ∧ RowsMatch P g s.w t.id :=
  protocol_unchanged_sound F P g cfg s t h hnew

end Pytask
