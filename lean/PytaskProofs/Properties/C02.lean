import PytaskProofs.Lemmas.EngineScratch
import PytaskProofs.Lemmas.StateExit
import PytaskProofs.Lemmas.EngineExample
import PytaskProofs.Lemmas.StateUPath
/-!
# C02 — an incremental build leaves what a from-scratch build would leave

Model: M6 (`PytaskModel/Engine.lean`): world = files (`node ↦ content id`) + state table
(`(task, neighbour) ↦ recorded state`). A file's *state* is its content id (sha256 collision freedom
is the trusted `sha_inj`), therefore

* every edit is **honest** by construction — a content change is a state change. The `(path, mtime)`
  memo of `hash_path` (a rewrite that restores the old mtime is not seen: finding **F4**) is outside
  this model and is the subject of C12;
* dependency sets are **static** — the project `P` is fixed along a history; a directory pattern whose
  match set shrinks (finding **F11**) is outside this model and is the subject of C18. Edits are
  arbitrary changes of file contents: inputs, module files (the body function `F` receives the module
  content, so changing a task's code is a content edit), products (tamper / delete), and loss of the
  state table.

That is why the main theorem is called `C02_partial`: it is the property for honest edits and static
dependency sets. Within the model nothing else is assumed about pytask; assumed about *task bodies*:
`BodiesTotal` (a body that returns has written all its products — the premise under which "what a
from-scratch build would produce" is defined) and about collection: `WF` (unique ids, …).
-/
namespace Pytask
open Engine

/-- **C02_equiv** (the "equivalently" clause, one protocol). `SKIP_UNCHANGED` is reported for `t`
only if the build is not forced and, at `t`'s setup, every tracked neighbour (dependency, product of
an `after` target, the task's module, product) exists, has a recorded row, and its current content
equals that row: never "unchanged" while something differs from what was recorded or was never
recorded. -/
theorem C02_equiv (F : BodyFn) (P : Project) (g : G) (cfg : Cfg) (s : Sess) (t : TaskSpec)
    (h : (t.id, Outcome.skipUnchanged) ∈ (protocol F P g cfg s t).reports)
    (hnew : (t.id, Outcome.skipUnchanged) ∉ s.reports) :
    cfg.force = false ∧ RowsMatch P g s.w t.id :=
  protocol_unchanged_sound F P g cfg s t h hnew

/-- **C02_equiv_build** (whole build, every legal schedule). If `build` reports `t` as
SKIP_UNCHANGED, then `--force` was off and the rows of `t` matched in the session state the loop
had reached when `t` was picked. -/
theorem C02_equiv_build (F : BodyFn) (P : Project) (cfg : Cfg) (w : World) (picks : List Nat) (r : Result)
    (t : Nat) (h : build F P cfg w picks = .ok r) (hrep : (t, Outcome.skipUnchanged) ∈ r.reports) :
    cfg.force = false ∧ ∃ g marks so pre post so1 s1, createDag P cfg = .ok (g, marks) ∧
      Sorter.fromDag g isTaskV (prioFn P) = .ok so ∧ picks = pre ++ t :: post ∧
      buildLoop F P g cfg so { w := w, skipMarks := marks } pre = .ok (so1, s1) ∧ RowsMatch P g s1.w t := by
  rcases build_cases h with ⟨_, _, hr, _⟩ | ⟨g, marks, so, so', s, hdag, hso, hloop, _, _, hr, _, _⟩
  · rw [hr] at hrep; cases hrep
  · rw [hr] at hrep
    rcases buildLoop_report_origin picks _ hloop hrep with h0 | ⟨pre, post, hp, hall⟩
    · cases h0
    · simp only at hp hall
      rw [hp] at hloop
      obtain ⟨so1, s1, spec, hpre, hfind, _⟩ := buildLoop_split pre hloop
      have hout := hall so1 s1 spec hpre hfind
      obtain ⟨hf, hrows⟩ := unchanged_rowsMatch F P g cfg s1 spec hout.symm
      rw [find?_id hfind] at hrows
      exact ⟨hf, g, marks, so, pre, post, so1, s1, hdag, hso, hp, hpre, hrows⟩

/-! ## the invariant -/

/-- **inv_init.** An empty state table (first build, or `.pytask` deleted) is coherent. -/
theorem C02_inv_init (F : BodyFn) (P : Project) : DbCoherent F P [] := by
  intro t _ _ p i _ hp hrow
  cases hrow

/-- **inv_edit.** An edit is any change of file contents — create, rewrite, delete; inputs, module
files, products. It does not touch the state table, and `DbCoherent` speaks about the table only;
`Inv` (next theorem) compares rows with the *current* contents, so it holds after the edit as well. -/
theorem C02_inv_edit (F : BodyFn) (P : Project) (w : World) (fs' : FS) (h : DbCoherent F P w.db) :
    DbCoherent F P ({ w with fs := fs' } : World).db := h

/-- **inv_protocol.** One task protocol — any configuration, any outcome — keeps the table coherent. -/
theorem C02_inv_protocol (F : BodyFn) (P : Project) (cfg : Cfg) (g : G) (marks : List Nat) (s : Sess)
    (t : TaskSpec) (hwf : WF P) (hbt : BodiesTotal P) (hdag : createDag P cfg = .ok (g, marks))
    (ht : t ∈ P.tasks) (hc : DbCoherent F P s.w.db) : DbCoherent F P (protocol F P g cfg s t).w.db :=
  coherent_protocol F P g cfg s t hwf hbt (graphOK_of_createDag hwf hdag) ht hc

/-- **inv_build.** A whole `build` — any options (force, dry-run, `-k`/`-m` selections, failure
limits), any failures (bodies raising early or late, failing loads / saves, missing inputs), every
schedule the loop accepts, also when the DAG is rejected — keeps the table coherent. -/
theorem C02_inv_build (F : BodyFn) (P : Project) (cfg : Cfg) (w : World) (picks : List Nat) (r : Result)
    (hwf : WF P) (hbt : BodiesTotal P) (h : build F P cfg w picks = .ok r)
    (hc : DbCoherent F P w.db) : DbCoherent F P r.w.db := by
  rcases build_cases h with ⟨hw, _, _, _⟩ | ⟨g, marks, so, so', s, hdag, _, hloop, hw, _, _, _, _⟩
  · rw [hw]; exact hc
  · rw [hw]
    exact coherent_buildLoop F P g cfg hwf hbt (graphOK_of_createDag hwf hdag) picks so so' _ s hloop hc

theorem C02_history_coherent {F : BodyFn} {P : Project} (hwf : WF P) (hbt : BodiesTotal P) {w : World}
    (h : History F P w) : DbCoherent F P w.db := by
  induction h with
  | init fs => exact C02_inv_init F P
  | edit fs' _ ih => exact ih
  | dbLost _ _ => exact C02_inv_init F P
  | build cfg picks r _ hb ih => exact C02_inv_build F P cfg _ picks r hwf hbt hb ih

/-- **Inv after any history.** In every world reachable by edits and builds: whenever all rows of a
task (not marked `persist`) match the current contents, each of its products holds
`F t i (module content) (dependency contents)` — "unchanged" is never claimed for a stale product. -/
theorem C02_inv (F : BodyFn) (P : Project) (cfg : Cfg) (g : G) (marks : List Nat) (w : World)
    (hwf : WF P) (hbt : BodiesTotal P) (hdag : createDag P cfg = .ok (g, marks)) (h : History F P w) :
    Inv F P g w :=
  inv_of_coherent hwf (graphOK_of_createDag hwf hdag) (C02_history_coherent hwf hbt h)

/-! ## incremental = from scratch -/

/-- **C02_partial.** After any history of (honest) edits and builds over the (static) project, take
a non-dry build with any other options and any legal schedule. For every task `t` such that `t` and
every task upstream of it through product chains is not marked `persist` and was reported SUCCESS or
SKIP_UNCHANGED (so: it was not skipped — by a marker, a selection, a failed or skipped ancestor —
and did not fail): each product of `t` holds exactly its from-scratch content `Scratch` w.r.t. the
current contents of the files no task produces. -/
theorem C02_partial (F : BodyFn) (P : Project) (cfg : Cfg) (w : World) (picks : List Nat) (r : Result)
    (hwf : WF P) (hbt : BodiesTotal P) (hhist : History F P w)
    (h : build F P cfg w picks = .ok r) (hdry : cfg.dry = false) (t : TaskSpec) (ht : t ∈ P.tasks)
    (hup : ∀ u ∈ P.tasks, UpTo P u.id t.id → u.persist = false ∧
      ((u.id, Outcome.success) ∈ r.reports ∨ (u.id, Outcome.skipUnchanged) ∈ r.reports)) :
    ∀ p i, (p, i) ∈ t.prods.zipIdx → ∃ v, lookup r.w.fs p = some v ∧ Scratch F P r.w.fs p v := by
  have hc := C02_inv_build F P cfg w picks r hwf hbt h (C02_history_coherent hwf hbt hhist)
  rcases build_cases h with ⟨_, _, hr, _⟩ | ⟨g, marks, so, so', s, hdag, hso, hloop, hw, _, hr, _, _⟩
  · have := (hup t ht (UpTo.refl _)).2
    rw [hr] at this
    rcases this with h | h <;> cases h
  · rw [hw] at hc ⊢
    rw [hr] at hup
    have hg := graphOK_of_createDag hwf hdag
    exact final_scratch hwf hg hdry hso hloop rfl (inv_of_coherent hwf hg hc) t hup t ht (UpTo.refl _)

/-- **C02_inputs_untouched.** A build changes no file that no task produces (inputs, module
files): the contents `Scratch` reads after the build are the ones the user left before it. -/
theorem C02_inputs_untouched (F : BodyFn) (P : Project) (cfg : Cfg) (w : World) (picks : List Nat)
    (r : Result) (h : build F P cfg w picks = .ok r) (q : Nat) (hq : ∀ t ∈ P.tasks, q ∉ t.prods) :
    lookup r.w.fs q = lookup w.fs q := by
  rcases build_cases h with ⟨hw, _, _, _⟩ | ⟨g, marks, so, so', s, _, _, hloop, hw, _, _, _, _⟩
  · rw [hw]
  · rw [hw]; exact buildLoop_fs_frame picks hloop q hq

/-- **C02_success** (the headline form). If the build reports *every* task as SUCCESS or
SKIP_UNCHANGED (exit code 0, nothing skipped, nothing persisted), every declared product of every
task holds its from-scratch content. -/
theorem C02_success (F : BodyFn) (P : Project) (cfg : Cfg) (w : World) (picks : List Nat) (r : Result)
    (hwf : WF P) (hbt : BodiesTotal P) (hhist : History F P w)
    (h : build F P cfg w picks = .ok r) (hdry : cfg.dry = false)
    (hall : ∀ u ∈ P.tasks, u.persist = false ∧
      ((u.id, Outcome.success) ∈ r.reports ∨ (u.id, Outcome.skipUnchanged) ∈ r.reports)) :
    ∀ t ∈ P.tasks, ∀ p i, (p, i) ∈ t.prods.zipIdx →
      ∃ v, lookup r.w.fs p = some v ∧ Scratch F P r.w.fs p v :=
  fun t ht => C02_partial F P cfg w picks r hwf hbt hhist h hdry t ht (fun u hu _ => hall u hu)

/-- **C02_exit0** (through the exit code). A non-dry build that ran to its natural end with exit
code 0, skipped nothing and persisted nothing, over a project without `persist` marks, leaves in
every declared product of every task its from-scratch content. -/
theorem C02_exit0 (F : BodyFn) (P : Project) (cfg : Cfg) (w : World) (picks : List Nat) (r : Result)
    (hwf : WF P) (hbt : BodiesTotal P) (hhist : History F P w)
    (h : build F P cfg w picks = .ok r) (hexit : r.exit = 0) (hcomplete : r.complete = true)
    (hdry : cfg.dry = false)
    (hnoskip : ∀ e ∈ r.reports, e.2 ≠ Outcome.skip) (hnopersist : ∀ e ∈ r.reports, e.2 ≠ Outcome.persistence)
    (hmarks : ∀ u ∈ P.tasks, u.persist = false) :
    ∀ t ∈ P.tasks, ∀ p i, (p, i) ∈ t.prods.zipIdx →
      ∃ v, lookup r.w.fs p = some v ∧ Scratch F P r.w.fs p v := by
  apply C02_success F P cfg w picks r hwf hbt hhist h hdry
  intro u hu
  refine ⟨hmarks u hu, ?_⟩
  rcases all_good_of_exit0 hwf h hexit hcomplete hdry hnoskip u hu with h1 | h1 | h1
  · exact Or.inl h1
  · exact absurd rfl (hnopersist _ h1)
  · exact Or.inr h1

/-- **C02_vs_fresh_build.** The same statement without the specification: an incremental build
(after any history) and *any other* build — e.g. a real from-scratch build: empty state table,
products deleted — that both report `t` and its upstream tasks as SUCCESS / SKIP_UNCHANGED and whose
final worlds agree on the files no task produces, leave the same contents in `t`'s products. -/
theorem C02_vs_fresh_build (F : BodyFn) (P : Project) (cfg cfg' : Cfg) (w w' : World) (picks picks' : List Nat)
    (r r' : Result) (hwf : WF P) (hbt : BodiesTotal P) (hhist : History F P w) (hhist' : History F P w')
    (h : build F P cfg w picks = .ok r) (h' : build F P cfg' w' picks' = .ok r')
    (hdry : cfg.dry = false) (hdry' : cfg'.dry = false) (t : TaskSpec) (ht : t ∈ P.tasks)
    (hup : ∀ u ∈ P.tasks, UpTo P u.id t.id → u.persist = false ∧
      ((u.id, Outcome.success) ∈ r.reports ∨ (u.id, Outcome.skipUnchanged) ∈ r.reports))
    (hup' : ∀ u ∈ P.tasks, UpTo P u.id t.id → u.persist = false ∧
      ((u.id, Outcome.success) ∈ r'.reports ∨ (u.id, Outcome.skipUnchanged) ∈ r'.reports))
    (hinputs : ∀ n, (∀ u ∈ P.tasks, n ∉ u.prods) → lookup r'.w.fs n = lookup r.w.fs n) :
    ∀ p ∈ t.prods, lookup r.w.fs p = lookup r'.w.fs p := by
  intro p hp
  obtain ⟨i, hpi⟩ := exists_zipIdx_of_mem hp
  obtain ⟨v, hv, hs⟩ := C02_partial F P cfg w picks r hwf hbt hhist h hdry t ht hup p i hpi
  obtain ⟨v', hv', hs'⟩ := C02_partial F P cfg' w' picks' r' hwf hbt hhist' h' hdry' t ht hup' p i hpi
  have huniq : ∀ t ∈ P.tasks, ∀ u ∈ P.tasks, ∀ p, p ∈ t.prods → p ∈ u.prods → t = u := by
    rcases build_cases h with ⟨_, _, hr, _⟩ | ⟨g, marks, _, _, _, hdag, _, _, _, _, _, _, _⟩
    · have := (hup t ht (UpTo.refl _)).2
      rw [hr] at this
      rcases this with h | h <;> cases h
    · exact (graphOK_of_createDag hwf hdag).uniqueProducer
  have := scratch_functional hwf huniq (scratch_congr hwf hinputs hs) v' hs'
  rw [hv, hv', this]

/-! ## histories over a changing project (add / remove / rewire tasks)

`History` above keeps the project fixed.  `HistoryP` (`Lemmas/StateStructural.lean`) lets the project change
by `PEdit`s (add a task, remove a task, replace a task's declaration: dependencies, products, `after`,
marks, behaviour, module) between builds, in any number and interleaved with file edits.  The only
link between files and project is required at the moment of a build: `DeclChangeTouchesSrc declOf P fs` —
the declaration of each task is what its module file says (`declOf (content of t.src) t.id`), so a
changed declaration comes with a changed module content.  The harness' generated projects satisfy it by
construction (module text is rendered from the declarations); the import-time glob of finding F11b
does not (`F11b_not_declChangeTouchesSrc`), and without it the statement is false (`C02_full_false`). -/

/-- The role of the hypothesis: in two states of a project that both satisfy it, a task with the same
module content has the same dependencies, products and `persist` mark.  Hence a task whose neighbour
set changed has a changed module content, its recorded module row no longer matches, `RowsMatch`
fails and the task runs again. -/
theorem C02_declChange_touches_src {declOf : Nat → Nat → Option Decl} {P P' : Project} {fs fs' : FS}
    (h : DeclChangeTouchesSrc declOf P fs) (h' : DeclChangeTouchesSrc declOf P' fs')
    {t t' : TaskSpec} (ht : t ∈ P.tasks) (ht' : t' ∈ P'.tasks) (hid : t.id = t'.id) {c : Nat}
    (hc : lookup fs t.src = some c) (hc' : lookup fs' t'.src = some c) :
    t.deps = t'.deps ∧ t.prods = t'.prods ∧ t.persist = t'.persist :=
  declChange_touches_src h h' ht ht' hid hc hc'

/-- **F11b violates the hypothesis**: no reading of module contents explains both the project before
(`shP`, dependencies `[10, 11]`) and after (`shP'`, dependencies `[10]`) the file disappeared — the
module content (node 90, content 1) is the same. -/
theorem F11b_not_declChangeTouchesSrc :
    ¬ ∃ declOf, DeclChangeTouchesSrc declOf shP shW.fs ∧ DeclChangeTouchesSrc declOf shP' shR1.w.fs := by
  rintro ⟨declOf, h, h'⟩
  have := (declChange_touches_src h h' (t := shT) (t' := shT') (by simp [shP]) (by simp [shP']) rfl
    (c := 1) (by decide) (by decide)).1
  exact absurd this (by decide)

/-- **Invariant over structural histories.** After any history of file edits, project edits, losses
of the state table and builds, the project-free invariant `DbCoherentS` holds: project edits and file
edits do not touch the table; a removed task's rows are never read again unless a task with that id
and a module row declaring it re-appears; an added task has no rows; rows left from an earlier
declaration of a task are read only together with the module row they were written with. -/
theorem C02_history_structural_coherent {F : BodyFn} {declOf : Nat → Nat → Option Decl} {P : Project} {w : World}
    (h : HistoryP F declOf P w) : DbCoherentS F declOf w.db :=
  historyP_coherent h

/-- **Inv for the current project after structural edits.** Whatever was added, removed or rewired:
if the current project is what the current module files say, then for every (non-`persist`) task of
the *current* project whose rows all match the current contents, each product holds
`F t i (module content) (dependency contents)`. -/
theorem C02_inv_structural (F : BodyFn) (declOf : Nat → Nat → Option Decl) (P : Project) (cfg : Cfg) (g : G)
    (marks : List Nat) (w : World) (hhist : HistoryP F declOf P w) (hwf : WF P)
    (hread : DeclChangeTouchesSrc declOf P w.fs) (hdag : createDag P cfg = .ok (g, marks)) :
    Inv F P g w :=
  inv_of_coherentS hwf (graphOK_of_createDag hwf hdag) hread (historyP_coherent hhist)

/-- **C02_history_structural** (`C02_partial` over changing projects). After any history of file
edits, project edits (add / remove / rewire tasks, any number), table losses and builds (any options,
schedules, outcomes), take a non-dry build of the current project `P` — which collects (`WF`), has
total bodies, and is what its module files say (`DeclChangeTouchesSrc`).  For every task `t` such
that `t` and every task upstream of it is not marked `persist` and was reported SUCCESS or
SKIP_UNCHANGED, each product of `t` holds its from-scratch content w.r.t. the *current* project. -/
theorem C02_history_structural (F : BodyFn) (declOf : Nat → Nat → Option Decl) (P : Project) (cfg : Cfg)
    (w : World) (picks : List Nat) (r : Result)
    (hhist : HistoryP F declOf P w) (hwf : WF P) (hbt : BodiesTotal P)
    (hread : DeclChangeTouchesSrc declOf P w.fs)
    (h : build F P cfg w picks = .ok r) (hdry : cfg.dry = false) (t : TaskSpec) (ht : t ∈ P.tasks)
    (hup : ∀ u ∈ P.tasks, UpTo P u.id t.id → u.persist = false ∧
      ((u.id, Outcome.success) ∈ r.reports ∨ (u.id, Outcome.skipUnchanged) ∈ r.reports)) :
    ∀ p i, (p, i) ∈ t.prods.zipIdx → ∃ v, lookup r.w.fs p = some v ∧ Scratch F P r.w.fs p v := by
  have hc := coherentS_build F declOf P cfg w picks r hwf hbt hread h (historyP_coherent hhist)
  have hread' := reads_build F P cfg w picks r hwf hread h
  rcases build_cases h with ⟨_, _, hr, _⟩ | ⟨g, marks, so, so', s, hdag, hso, hloop, hw, _, hr, _, _⟩
  · have := (hup t ht (UpTo.refl _)).2
    rw [hr] at this
    rcases this with h | h <;> cases h
  · rw [hw] at hc hread' ⊢
    rw [hr] at hup
    have hg := graphOK_of_createDag hwf hdag
    exact final_scratch hwf hg hdry hso hloop rfl (inv_of_coherentS hwf hg hread' hc) t hup t ht (UpTo.refl _)

/-- **C02_success_structural.** … in particular, if the build reports every task of the current
project as SUCCESS or SKIP_UNCHANGED, every declared product holds its from-scratch content. -/
theorem C02_success_structural (F : BodyFn) (declOf : Nat → Nat → Option Decl) (P : Project) (cfg : Cfg)
    (w : World) (picks : List Nat) (r : Result)
    (hhist : HistoryP F declOf P w) (hwf : WF P) (hbt : BodiesTotal P)
    (hread : DeclChangeTouchesSrc declOf P w.fs)
    (h : build F P cfg w picks = .ok r) (hdry : cfg.dry = false)
    (hall : ∀ u ∈ P.tasks, u.persist = false ∧
      ((u.id, Outcome.success) ∈ r.reports ∨ (u.id, Outcome.skipUnchanged) ∈ r.reports)) :
    ∀ t ∈ P.tasks, ∀ p i, (p, i) ∈ t.prods.zipIdx →
      ∃ v, lookup r.w.fs p = some v ∧ Scratch F P r.w.fs p v :=
  fun t ht => C02_history_structural F declOf P cfg w picks r hhist hwf hbt hread h hdry t ht
    (fun u hu _ => hall u hu)

/-! ## why "static dependency sets" is needed: the full statement is false of the current code -/

/-- **C02_full** — `C02_success` without the static project: between the two builds the project may
change from `P` to `P'` (tasks, dependencies, products) while file contents — module files included —
stay as they are. (In `C02_partial` a change of a task is a change of its module content.) -/
def C02_full : Prop :=
  ∀ (F : BodyFn) (P P' : Project) (w : World) (picks picks' : List Nat) (r r' : Result),
    WF P → WF P' → BodiesTotal P → BodiesTotal P' → w.db = [] →
    build F P {} w picks = .ok r → build F P' {} r.w picks' = .ok r' →
    (∀ u ∈ P'.tasks, u.persist = false ∧
      ((u.id, Outcome.success) ∈ r'.reports ∨ (u.id, Outcome.skipUnchanged) ∈ r'.reports)) →
    ∀ t ∈ P'.tasks, ∀ p i, (p, i) ∈ t.prods.zipIdx →
      ∃ v, lookup r'.w.fs p = some v ∧ Scratch F P' r'.w.fs p v

/-- **C02_full is false** (finding F11b, same root cause as F11: the set of tracked neighbours is
not recorded, only one row per neighbour). Witness `shP → shP'`: a task whose dependency list
shrinks from `[10, 11]` to `[10]` without its module changing (dependencies computed by a glob at
import time, a configuration value, …). Every remaining neighbour still matches its row, the stale
row for 11 is never looked at, the task is reported SKIP_UNCHANGED and the product keeps the value
computed from both files (13) instead of the from-scratch value (6). -/
theorem C02_full_false : ¬ C02_full := by
  intro h
  obtain ⟨v, hv, hs⟩ := h exF shP shP' shW [0] [0] shR1 shR2 shWF shWF' shBT shBT' rfl shBuild1 shBuild2
    (by intro u hu; simp only [shP', List.mem_singleton] at hu; subst hu; exact ⟨rfl, Or.inr (by decide)⟩)
    shT' (by simp [shP']) 20 0 (by decide)
  have h13 : lookup shR2.w.fs 20 = some 13 := by decide
  rw [h13] at hv
  have huniq : ∀ t ∈ shP'.tasks, ∀ u ∈ shP'.tasks, ∀ p, p ∈ t.prods → p ∈ u.prods → t = u := by
    intro t ht u hu _ _ _
    simp only [shP', List.mem_singleton] at ht hu
    rw [ht, hu]
  have := scratch_functional shWF' huniq hs 6 shScratch
  rw [← Option.some.inj hv] at this
  exact absurd this (by decide)

/-! ## a node kind outside M6: `UPath` with a protocol (finding F61, repaired) -/

open Pytask.Hash in
/-- **C02_upath_full** (holds since the repair of finding F61). A protocol-UPath node on a file system without ETags has, like a
local file, the memoised content hash as state: with memos coherent with the file system (C12: `MemoCoherent`, kept by honest
edits) and `sha` collision-free on the two contents, *different bytes give different states* — "never unchanged while a tracked
file differs" extends to this node kind. (`Generated.upathNoEtagKind`, read from `nodes._get_state`, says which expression the
code uses; with the old constant `"0"` this statement was false.) -/
theorem C02_upath_full (sha md5 : Bytes → Str) (S : Bytes → Prop) (hS : InjOn sha S) (memo memo' : Memo) (W W' : Hash.World)
    (hc : MemoCoherent sha md5 memo W) (hc' : MemoCoherent sha md5 memo' W')
    (p q : Str) (mh mh' : Int) (c c' : Bytes)
    (hp : W p = some (mh, c)) (hq : W' q = some (mh', c')) (s : S c) (s' : S c') (hne : c ≠ c') :
    (upathStateOf sha md5 memo p (some (none, mh, c))).2 ≠ (upathStateOf sha md5 memo' q (some (none, mh', c'))).2 := by
  rw [upathStateOf_noEtag, upathStateOf_noEtag, stateOfFile_coherent sha md5 memo W hc p mh c hp,
      stateOfFile_coherent sha md5 memo' W' hc' q mh' c' hq]
  intro h
  exact hne (hS c c' s s' (Option.some.inj h))

open Pytask.Hash in
/-- **C02_upath_etag**: on a file system with ETags the state is the ETag; it separates contents as far as the ETags do. -/
theorem C02_upath_etag (sha md5 : Bytes → Str) (memo memo' : Memo) (p q : Str) (e e' : Str) (mh mh' : Int) (c c' : Bytes)
    (hinj : e = e' → c = c') (hne : c ≠ c') :
    (upathStateOf sha md5 memo p (some (some e, mh, c))).2 ≠ (upathStateOf sha md5 memo' q (some (some e', mh', c'))).2 := by
  intro h
  exact hne (hinj (Option.some.inj h))

/-! ## non-vacuity (project `exP`: input 10 → task 0 → 20 → task 1 → 21, 22; see `Lemmas/EngineExample.lean`) -/

/-- A real history: first build, edit of the input, second build, edit of task 1's module. The
hypotheses of `C02_success` hold for the third (incremental) build of that history — task 0 is
reported unchanged, task 1 runs — so all three products hold their from-scratch contents … -/
example : ∀ t ∈ exP.tasks, ∀ p i, (p, i) ∈ t.prods.zipIdx →
    ∃ v, lookup exR3.w.fs p = some v ∧ Scratch exF exP exR3.w.fs p v := by
  have exHistory3 : History exF exP exW3 :=
    History.edit _ (History.build {} [0, 1] exR2
      (History.edit _ (History.build {} [0, 1] exR1 (History.init _) exBuild1)) exBuild2)
  refine C02_success exF exP {} exW3 [0, 1] exR3 exWF exBT exHistory3 exBuild3 rfl ?_
  intro u hu
  rcases mem_exP hu with rfl | rfl
  · exact ⟨rfl, Or.inr (by decide)⟩
  · exact ⟨rfl, Or.inl (by decide)⟩

/-- The same through `C02_exit0` (exit code 0, complete, nothing skipped or persisted). -/
example : ∀ t ∈ exP.tasks, ∀ p i, (p, i) ∈ t.prods.zipIdx →
    ∃ v, lookup exR3.w.fs p = some v ∧ Scratch exF exP exR3.w.fs p v := by
  have exHistory3 : History exF exP exW3 :=
    History.edit _ (History.build {} [0, 1] exR2
      (History.edit _ (History.build {} [0, 1] exR1 (History.init _) exBuild1)) exBuild2)
  refine C02_exit0 exF exP {} exW3 [0, 1] exR3 exWF exBT exHistory3 exBuild3 rfl rfl rfl (by decide) (by decide) ?_
  intro u hu
  rcases mem_exP hu with rfl | rfl <;> rfl

/-- … which are these concrete numbers (input 6, modules 1 and 3). -/
example : lookup exR3.w.fs 20 = some 7 ∧ lookup exR3.w.fs 21 = some 1010 ∧ lookup exR3.w.fs 22 = some 1110 := by
  decide

/-- `C02_equiv_build` on the third build: task 0 was reported unchanged, so its rows matched. -/
example : ∃ (g : G) (s1 : Sess), RowsMatch exP g s1.w 0 := by
  obtain ⟨_, g, _, _, _, _, _, s1, _, _, _, _, h⟩ :=
    C02_equiv_build exF exP {} exW3 [0, 1] exR3 0 exBuild3 (by decide)
  exact ⟨g, s1, h⟩

/-- Structural history (non-vacuity of `C02_success_structural`): first build, input edited, second build,
then task 1 is rewired (it additionally consumes the input 10) together with an edit of its module,
third build of the *new* project: task 0 unchanged, task 1 runs, all products from scratch w.r.t. `exP'`. -/
example : ∀ t ∈ exP'.tasks, ∀ p i, (p, i) ∈ t.prods.zipIdx →
    ∃ v, lookup exR3'.w.fs p = some v ∧ Scratch exF exP' exR3'.w.fs p v := by
  refine C02_success_structural exF exDeclOf exP' {} exW3 [0, 1] exR3' exHistoryP exWF' exBT' exReads' exBuild3' rfl ?_
  intro u hu
  rcases mem_exP' hu with rfl | rfl
  · exact ⟨rfl, Or.inr (by decide)⟩
  · exact ⟨rfl, Or.inl (by decide)⟩

open Pytask.Hash in
/-- The witness of the former finding F61 now holds: the file is rewritten from `A` to `B` (honest edit: a new mtime, fresh memos),
no ETag; the two states differ as soon as `sha` separates the two contents. -/
example (sha md5 : Bytes → Str) (hsha : sha [65] ≠ sha [66]) :
    (upathStateOf sha md5 {} ['i', 'n'] (some (none, 1, [65]))).2 ≠ (upathStateOf sha md5 {} ['i', 'n'] (some (none, 2, [66]))).2 := by
  rw [upathStateOf_noEtag, upathStateOf_noEtag, stateOfFile_some, stateOfFile_some]
  simp only [Memo.get_empty]
  intro h
  exact hsha (Option.some.inj h)

end Pytask
