/-! The proof modules are built individually (see lakefile.toml: `globs`); this file only names the library. -/
