import PytaskProofs.AuditTool
import PytaskProofs.Properties.C01
import PytaskProofs.Properties.C19
import PytaskProofs.Properties.C06
import PytaskProofs.Properties.C17
