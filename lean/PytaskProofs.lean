import PytaskProofs.Properties.C19
