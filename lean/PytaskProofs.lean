import PytaskProofs.AuditTool
import PytaskProofs.Properties.C01
import PytaskProofs.Properties.C12
import PytaskProofs.Properties.C10
import PytaskProofs.Properties.C19
import PytaskProofs.Properties.C07
import PytaskProofs.Properties.C18
import PytaskProofs.Properties.C13
