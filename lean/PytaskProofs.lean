import PytaskProofs.AuditTool
import PytaskProofs.Properties.C01
import PytaskProofs.Properties.C19
import PytaskProofs.Properties.C14
import PytaskProofs.Properties.C15
