import PytaskProofs.AuditTool
import PytaskProofs.Properties.C01
import PytaskProofs.Properties.C12
import PytaskProofs.Properties.C19
