import PytaskProofs.AuditTool
import PytaskProofs.Properties.C01
import PytaskProofs.Properties.C10
import PytaskProofs.Properties.C19
