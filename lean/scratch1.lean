import PytaskModel.PyTree
open Pytask.PyTree
#check @String.lt_irrefl
#check @Int.lt_irrefl
example (s : String) : ¬ s < s := String.lt_irrefl s
#print axioms T.rec
#check @T.rec
