import PytaskProofs.Lemmas.PyTree
open Pytask.PyTree
#print axioms flattenUpTo_at_aux
#print axioms paths_at_aux
#print axioms unflattenAux_sound
#print axioms flattenUpTo_isSome
