import PytaskProofs.Lemmas.Expr
namespace Pytask.SelExpr

theorem pExpr_parseFuel_ne_fuel (bad ts) : pExpr bad (parseFuel ts.length) ts ≠ .error .fuel :=
  (noFuel bad _).expr ts (by simp [parseFuel])

/-- With the standard fuel the parser finds every parse that any amount of fuel finds. -/
theorem pExpr_parseFuel_of_ok {bad f ts v} (h : pExpr bad f ts = .ok v) :
    pExpr bad (parseFuel ts.length) ts = .ok v := by
  have h1 := pExpr_mono_le (g := max f (parseFuel ts.length)) h (by simp) (Nat.le_max_left _ _)
  have h2 := pExpr_mono_le (g := max f (parseFuel ts.length)) rfl (pExpr_parseFuel_ne_fuel bad ts)
    (Nat.le_max_right _ _)
  rw [← h2, h1]

theorem parseToks_cons (bad t ts) : parseToks bad (t :: ts) =
    match pExpr bad (parseFuel (t :: ts).length) (t :: ts) with
    | .error e => .error e
    | .ok (e, []) => if bad then .error (.at 0) else .ok e
    | .ok (_, r) => .error (.at r.length) := by
  rw [parseToks]
  · rfl
  · simp

theorem parseToks_ok_iff (ts : List Tok) (e : Ast) : parseToks false ts = .ok e ↔ GTop ts e := by
  constructor
  · intro h
    rcases ts with _ | ⟨t, ts⟩
    · simp [parseToks] at h; subst h; exact .empty
    · rw [parseToks_cons] at h
      cases hp : pExpr false (parseFuel (t :: ts).length) (t :: ts) with
      | error e => rw [hp] at h; simp at h
      | ok v =>
        obtain ⟨e1, r⟩ := v
        rw [hp] at h
        rcases r with _ | ⟨t', r⟩
        · simp at h
          subst h
          obtain ⟨m, hm, g⟩ := (sound _).expr _ _ _ hp
          simp at hm; subst hm
          exact .expr g
        · simp at h
  · intro h
    cases h with
    | empty => simp [parseToks]
    | expr g =>
      rcases ts with _ | ⟨t, ts⟩
      · exact absurd rfl g.ne_nil
      · obtain ⟨f, hf⟩ := complete g [] (by simp) 1 e [] (by rw [pExprLoop_stop _ _ _ _ (by simp)])
        rw [List.append_nil] at hf
        rw [parseToks_cons, pExpr_parseFuel_of_ok hf]
        simp

theorem parseToks_bad_ne_ok (ts : List Tok) (e : Ast) : parseToks true ts ≠ .ok e := by
  rcases ts with _ | ⟨t, ts⟩
  · simp [parseToks]
  · rw [parseToks_cons]
    cases hp : pExpr true (parseFuel (t :: ts).length) (t :: ts) with
    | error e => simp
    | ok v =>
      obtain ⟨e1, r⟩ := v
      rcases r with _ | ⟨t', r⟩ <;> simp

theorem parseToks_total (bad : Bool) (ts : List Tok) :
    (∃ e, parseToks bad ts = .ok e) ∨ (∃ k, parseToks bad ts = .error (.at k) ∧ k ≤ ts.length) := by
  rcases ts with _ | ⟨t, ts⟩
  · cases bad <;> simp [parseToks]
  · rw [parseToks_cons]
    have hs := (spec bad (parseFuel (t :: ts).length)).expr (t :: ts)
    have hn := pExpr_parseFuel_ne_fuel bad (t :: ts)
    cases hp : pExpr bad (parseFuel (t :: ts).length) (t :: ts) with
    | error e =>
      cases e with
      | fuel => exact absurd hp hn
      | «at» k => rw [hp] at hs; right; exact ⟨k, rfl, by simpa using hs⟩
    | ok v =>
      obtain ⟨e1, r⟩ := v
      rw [hp] at hs
      have := hs.ok_lt
      rcases r with _ | ⟨t', r⟩
      · cases bad <;> simp
      · right; exact ⟨(t' :: r).length, rfl, by omega⟩

/-- The grammar is unambiguous: a token string denotes at most one tree. -/
theorem GTop.unique {ts e e'} (h : GTop ts e) (h' : GTop ts e') : e = e' := by
  have := (parseToks_ok_iff ts e).2 h
  have := (parseToks_ok_iff ts e').2 h'
  simp_all

end Pytask.SelExpr
