import sys, json
sys.path.insert(0, '/tmp/ws_c18/harness')
import common
from props import c18
from impl import prov_api as pa
h = json.loads(open(sys.argv[1]).read())
pool = pa.TimedPool([int(sys.argv[2]) if len(sys.argv) > 2 else 1])
recs = pa.run_history(pool.pick(0), h)
pool.close()
for r in recs:
    if r["step"][0] == "build":
        o = r["obs"]
        print("BUILD exit", o.get("exit"), [(pa.name_to_id(x[0]), x[1], x[2]) for x in o["reports"]])
        print("   log", [" ".join(e)[:40] for e in o["log"]])
    else:
        print(r["step"])
print(c18.oracle(h, recs))
drv = common.Driver()
print(pa.replay_in_model(drv, h, recs))
