import sys, json
sys.path.insert(0, '/tmp/ws_c18/harness')
import common
from props import c18
ctx = common.Ctx("C18", "quick", 0)
hs = [h for h in c18.corpus() if h["tag"] == sys.argv[1]]
recs = c18.run_histories(ctx, hs, nseeds=1)
for r in recs[0]:
    if r["step"][0] == "build": print(r["obs"].get("exit"), r["obs"]["reports"])
print(c18.oracle(hs[0], recs[0]))
