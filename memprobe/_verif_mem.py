from pytask import PythonNode
_N = {}
def node(k):
    if k not in _N:
        _N[k] = PythonNode(name=f"mem{k}")
    return _N[k]
