import sys, pytask
from pathlib import Path
root = Path(__file__).parent
sys.path.insert(0, str(root))
s = pytask.build(paths=[root])
print("exit", int(s.exit_code), [(r.task.name.split("::")[-1], r.outcome.name) for r in s.execution_reports], (root/"log.txt").read_text().split("\n") if (root/"log.txt").exists() else [])
for u, v in s.dag.edges: print("  ", s.dag.nodes[u].get("task", s.dag.nodes[u].get("node")).name.split("/")[-1], "->", s.dag.nodes[v].get("task", s.dag.nodes[v].get("node")).name.split("/")[-1])
