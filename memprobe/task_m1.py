from __future__ import annotations
from pathlib import Path
from typing import Annotated
import pytask
from pytask import Product, task, PythonNode
import _verif_mem
LOG = Path(__file__).parent / "log.txt"
def task_b(*, mi0: Annotated[object, _verif_mem.node(0)], produces: Path = Path(__file__).parent / "b.txt"):
    produces.write_text(f"b{mi0}")
    open(LOG, "a").write(f"b {mi0}\n")
