from __future__ import annotations
from pathlib import Path
from typing import Annotated
import pytask
from pytask import Product, task, PythonNode
import _verif_mem
LOG = Path(__file__).parent / "log.txt"

def task_a(*, mo0: Annotated[object, _verif_mem.node(0), Product], produces: Path = Path(__file__).parent / "a.txt"):
    mo0.save(5)
    produces.write_text("a")
    open(LOG, "a").write("a\n")
